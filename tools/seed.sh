#!/bin/bash
# tools/seed.sh <check> <patch.diff> [tier]  : apply a seeded change to a scratch copy of /repo (outside /repo and /verif) and run a check on it
set -u
CHK=$1; PATCH=$2; TIER=${3:-quick}
[ -d "$PATCH" ] && { if [ -f "$PATCH/patch_rebased.diff" ]; then PATCH="$PATCH/patch_rebased.diff"; else PATCH="$PATCH/patch.diff"; fi; }
S=/var/tmp/rsx_$$
rm -rf $S; mkdir -p $S; cp -r /repo/src $S/src
( cd $S && patch -p1 -s --no-backup-if-mismatch < "$PATCH" ) || { echo "patch failed"; rm -rf $S; exit 3; }
cd /verif
REPO=$S timeout 3000 ./check $CHK --tier $TIER > /tmp/seed_out_$CHK.txt 2>&1
rc=$?
echo "rc=$rc $(grep -c '^VIOLATION' /tmp/seed_out_$CHK.txt) violation line(s): $(grep '^violation key' /tmp/seed_out_$CHK.txt | cut -c1-200 | head -4 | tr '\n' ';')"
rm -rf $S
