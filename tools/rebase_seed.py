#!/usr/bin/env python3
"""tools/rebase_seed.py <seed-id>: re-create seeded/<id>/patch_rebased.diff against the current /repo tree when the original
patch.diff (made against an older commit) no longer applies textually. The textual edits are listed here explicitly."""
import os, subprocess, sys, shutil, tempfile
EDITS = {
 "C03": [("gvt/fossil.c", "msg->dest_t >= gvt;) {", "msg->dest_t > gvt;) {")],
 "C13": [("gvt/fossil.c", "msg->dest_t >= gvt;) {", "msg->dest_t > gvt;) {")],
 "C04": [("lp/process.c", "	gvt_on_msg_extraction(msg->dest_t);\n\n	struct lp_ctx *lp = &lps[msg->dest];", "	struct lp_ctx *lp = &lps[msg->dest];"),
         ("lp/process.c", "	if(unlikely(lp->p.bound >= msg->dest_t && msg_is_before(msg, array_peek(lp->p.p_msgs))))", "	gvt_on_msg_extraction(msg->dest_t);\n\n	if(unlikely(lp->p.bound >= msg->dest_t && msg_is_before(msg, array_peek(lp->p.p_msgs))))")],
 "C07": [("gvt/termination.c", "	bool keep = old_t < msg_time || old_t == SIMTIME_MAX;", "	bool keep = old_t <= msg_time || old_t == SIMTIME_MAX;")],
 "C08": [("gvt/termination.c", "	nid_t i = n_nodes + 1;", "	// each node waits for exactly n_nodes termination messages\n	nid_t i = n_nodes;"),
         ("gvt/termination.h", "memory_order_relaxed) > 0)", "memory_order_relaxed) != 0)")],
 "C06": [("lp/process.c", "		prev_p = &a_msg->next;\n		a_msg = *prev_p;\n", "		a_msg = a_msg->next;\n")],
}
sid = sys.argv[1]
tmp = tempfile.mkdtemp(prefix="rsx_", dir="/var/tmp")
try:
    shutil.copytree("/repo/src", tmp + "/a/src")
    shutil.copytree("/repo/src", tmp + "/b/src")
    for f, old, new in EDITS[sid]:
        p = tmp + "/b/src/" + f
        s = open(p).read()
        assert s.count(old) == 1, (f, old, s.count(old))
        open(p, "w").write(s.replace(old, new))
    r = subprocess.run(["diff", "-ruN", "a/src", "b/src"], cwd=tmp, stdout=subprocess.PIPE, text=True)
    open("/verif/seeded/%s/patch_rebased.diff" % sid, "w").write(r.stdout)
    print(sid, "rebased,", r.stdout.count("\n@@"), "hunks")
finally:
    shutil.rmtree(tmp)
