#!/bin/bash
# tools/run_some.sh <seed> <tier> <check>... : like run_all.sh for a subset
cd "$(dirname "$0")/.."
S=$1; T=$2; shift 2
for c in "$@"; do
  t0=$(date +%s)
  VERIF_SEED=$S ./check $c --tier $T > /tmp/runsome_${S}_${T}_$c.txt 2>&1
  rc=$?
  echo "$c seed=$S tier=$T rc=$rc wall=$(( $(date +%s) - t0 ))s $(grep -c '^VIOLATION' /tmp/runsome_${S}_${T}_$c.txt) violations; $(grep -E '^INCONCLUSIVE|^HARNESS' /tmp/runsome_${S}_${T}_$c.txt | head -2 | cut -c1-200 | tr '\n' ';')"
done
