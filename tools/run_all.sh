#!/bin/bash
# tools/run_all.sh <seed> [tier] : every check once, one line each (used for soaks; not registered)
cd "$(dirname "$0")/.."
S=${1:-1}; T=${2:-quick}
for c in C01 C02 C03 C04 C05 C06 C07 C08 C09 C10 C11 C12 C13 C14 C15 C16 C17 C18 C19 C20; do
  t0=$(date +%s)
  VERIF_SEED=$S ./check $c --tier $T > /tmp/runall_${S}_$c.txt 2>&1
  rc=$?
  echo "$c seed=$S tier=$T rc=$rc wall=$(( $(date +%s) - t0 ))s $(grep -c '^VIOLATION' /tmp/runall_${S}_$c.txt) violations; $(grep -E '^INCONCLUSIVE|^HARNESS' /tmp/runall_${S}_$c.txt | head -2 | cut -c1-200 | tr '\n' ';')"
done
