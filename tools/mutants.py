#!/usr/bin/env python3
"""Hand-made mutants used to validate the monitors (DESIGN.md sections 6 and 12).
usage: tools/mutants.py [filter-substring]   -> one line per mutant: caught (rc=1 + VIOLATION) / missed / inconclusive
Each mutant is one textual edit applied to a scratch copy of /repo/src (outside /repo and /verif), checked with REPO=<copy>."""
import os
import shutil
import subprocess
import sys
import tempfile

M = [
    # id, check, file, old, new
    ("c01-straggler-off-by-one", "C01", "lp/process.c", "	} while(is_msg_sent(msg) || msg_is_before(s_msg, msg));\n	return i + 1;", "	} while(is_msg_sent(msg) || msg_is_before(s_msg, msg));\n	return i + 2;"),
    ("c01-silent-starts-late", "C01", "lp/process.c", "	silent_execution(lp, last_i, past_i);", "	silent_execution(lp, last_i + 1, past_i);"),
    ("c01-anti-loop-skips-last", "C01", "lp/process.c", "	for(array_count_t i = past_i; i < p_cnt; ++i) {\n		struct lp_msg *msg = array_get_at(proc_p->p_msgs, i);\n\n		while(is_msg_sent(msg)) {", "	for(array_count_t i = past_i; i + 1 < p_cnt || i == past_i; ++i) {\n		struct lp_msg *msg = array_get_at(proc_p->p_msgs, i);\n\n		while(is_msg_sent(msg)) {"),
    ("c01-bound-not-reset", "C01", "lp/process.c", "		lp->p.bound = unlikely(array_is_empty(lp->p.p_msgs)) ? -1.0 : lp->p.bound;\n		return;", "		return;"),
    ("c01-tie-straggler-missed", "C01", "lp/process.c", "	if(unlikely(lp->p.bound >= msg->dest_t && msg_is_before(msg, array_peek(lp->p.p_msgs))))", "	if(unlikely(lp->p.bound > msg->dest_t && msg_is_before(msg, array_peek(lp->p.p_msgs))))"),
    ("c03-fossil-past-plus-2", "C03", "gvt/fossil.c", "	past_i = model_allocator_fossil_lp_collect(&lp->mm_state, past_i + 1);", "	past_i = model_allocator_fossil_lp_collect(&lp->mm_state, past_i + 2);"),
    ("c03-truncate-other-amount", "C03", "gvt/fossil.c", "	array_truncate_first(proc_p->p_msgs, past_i);", "	array_truncate_first(proc_p->p_msgs, past_i > 1 ? past_i - 1 : past_i);"),
    ("c03-fossil-frees-local-sent", "C06", "gvt/fossil.c", "		if(!is_msg_local_sent(msg))\n			msg_allocator_free(unmark_msg(msg));", "		msg_allocator_free(unmark_msg(msg));"),
    ("c04-no-second-peek", "C04", "gvt/gvt.c", "			reducing_p[rid] = min(gvt_accumulator, msg_queue_time_peek());", "			reducing_p[rid] = gvt_accumulator;"),
    ("c04-accumulator-forgotten", "C04", "gvt/gvt.c", "			reducing_p[rid] = min(gvt_accumulator, msg_queue_time_peek());", "			reducing_p[rid] = msg_queue_time_peek();"),
    ("c04-peek-skips-buffer", "C04", "datatypes/msg_queue.c", "simtime_t msg_queue_time_peek(void)\n{\n	msg_queue_insert_queued();", "simtime_t msg_queue_time_peek(void)\n{"),
    ("c04-no-accounting-at-extraction", "C04", "lp/process.c", "	gvt_on_msg_extraction(msg->dest_t);\n", ""),
    ("c05-silent-flag-not-reset", "C05", "lp/process.c", "	silent_processing = false;\n", ""),
    ("c05-restore-blocks-not-copied", "C05", "mm/buddy/ckpt.c", "		memcpy(self->base_mem + offset, ptr, len);                                                             \\", "		(void)self;                                                             \\"),
    ("c06-requeue-condition-inverted-sender", "C06", "lp/process.c", "				if(f & MSG_FLAG_PROCESSED)\n					msg_queue_insert(msg);", "				if(!(f & MSG_FLAG_PROCESSED))\n					msg_queue_insert(msg);"),
    ("c06-requeue-condition-inverted-receiver", "C06", "lp/process.c", "		if(!(f & MSG_FLAG_ANTI))\n			msg_queue_insert(msg);", "		if(f & MSG_FLAG_ANTI)\n			msg_queue_insert(msg);"),
    ("c06-fetch-add-to-load-store", "C06", "lp/process.c", "				uint32_t f =\n				    atomic_fetch_add_explicit(&msg->flags, MSG_FLAG_ANTI, memory_order_relaxed);", "				uint32_t f = atomic_load_explicit(&msg->flags, memory_order_relaxed);\n				atomic_store_explicit(&msg->flags, f + MSG_FLAG_ANTI, memory_order_relaxed);"),
    ("c06-anti-free-also-in-history", "C06", "lp/process.c", "	} else if(last_flags == (MSG_FLAG_ANTI | MSG_FLAG_PROCESSED)) {\n", "	} else if(0) {\n"),
    ("c06-fini-frees-anti-events", "C06", "lp/process.c", "		if(remote || !(flags & MSG_FLAG_ANTI))\n			msg_allocator_free(msg);", "		(void)flags; (void)remote;\n		msg_allocator_free(msg);"),
    ("c07-no-rollback-reset", "C07", "gvt/termination.c", "	lps_to_end += !keep;", "	lps_to_end += 0 * !keep;"),
    ("c07-vote-without-lps-check", "C07", "gvt/termination.c", "	if(likely((lps_to_end || max_t >= current_gvt) && current_gvt < global_config.termination_time))", "	if(likely((max_t >= current_gvt) && current_gvt < global_config.termination_time))"),
    ("c07-maxt-strict", "C07", "gvt/termination.c", "	if(likely((lps_to_end || max_t >= current_gvt) && current_gvt < global_config.termination_time))", "	if(likely((lps_to_end || max_t > current_gvt) && current_gvt < global_config.termination_time))"),
    ("c08-phase-not-reset-at-done", "C08", "gvt/gvt.c", "			node_phase = node_phase_redux_first;\n			thread_phase = thread_phase_idle;", "			node_phase = node_phase_redux_first;"),
    ("c08-ca-decrement-missing", "C08", "gvt/gvt.c", "			thread_phase = thread_phase_idle;\n			atomic_fetch_sub_explicit(&c_a, 1U, memory_order_relaxed);\n			return true;", "			thread_phase = thread_phase_idle;\n			return true;"),
    ("c08-drain-initiation-guard-dropped", "C08", "gvt/gvt.c", "			    !atomic_load_explicit(&gvt_nodes, memory_order_relaxed) &&\n			    !atomic_load_explicit(&drain_waiting, memory_order_acquire))) {", "			    !atomic_load_explicit(&gvt_nodes, memory_order_relaxed))) {"),
    ("c09-seed-with-thread", "C09", "lib/random/random.c", "	rng_ctx->state[0] = lp_id;", "	rng_ctx->state[0] = lp_id + rid;"),
    ("c09-rng-not-checkpointed", "C09", "lp/lp.c", "		lp->rng_ctx = rs_malloc(sizeof(*lp->rng_ctx));\n		random_lib_lp_init(i, lp->rng_ctx);\n\n		auto_ckpt_lp_init", "		lp->rng_ctx = mm_alloc(sizeof(*lp->rng_ctx));\n		random_lib_lp_init(i, lp->rng_ctx);\n\n		auto_ckpt_lp_init"),
    ("c09-local-index-seed", "C09", "lp/lp.c", "		random_lib_lp_init(i, lp->rng_ctx);\n\n		auto_ckpt_lp_init", "		random_lib_lp_init(i - lid_thread_first, lp->rng_ctx);\n\n		auto_ckpt_lp_init"),
    ("c13-fossil-gvt-inclusive", "C13", "gvt/fossil.c", "msg->dest_t >= gvt;) {", "msg->dest_t > gvt;) {"),
    ("c15-cas-to-load-store", "C15", "datatypes/msg_queue.c", "	while(unlikely(!atomic_compare_exchange_weak_explicit(list_p, &msg->next, msg, memory_order_release,\n	    memory_order_relaxed)))", "	atomic_store_explicit(list_p, msg, memory_order_release);\n	while(0)"),
    ("c15-exchange-to-load-store", "C15", "datatypes/msg_queue.c", "	struct lp_msg *m = atomic_exchange_explicit(&queues[rid].list, NULL, memory_order_acquire);", "	struct lp_msg *m = atomic_load_explicit(&queues[rid].list, memory_order_acquire);\n	atomic_store_explicit(&queues[rid].list, NULL, memory_order_relaxed);"),
    ("c15-heap-on-time-only", "C15", "datatypes/msg_queue.c", "#define q_elem_is_before(ma, mb) ((ma).t < (mb).t || ((ma).t == (mb).t && msg_is_before_extended(ma.m, mb.m)))", "#define q_elem_is_before(ma, mb) ((ma).t < (mb).t)"),
    ("c15-release-to-relaxed", "C15", "datatypes/msg_queue.c", "msg, memory_order_release,\n	    memory_order_relaxed)))", "msg, memory_order_relaxed,\n	    memory_order_relaxed)))"),
    ("c20-rollback-counted-twice", "C20", "lp/process.c", "	stats_take(STATS_ROLLBACK, 1);", "	stats_take(STATS_ROLLBACK, 2);"),
    ("c20-counter-not-zeroed", "C20", "log/stats.c", "	file_write_chunk(stats_tmps[rid], &stats_cur, sizeof(stats_cur));\n	memset(&stats_cur, 0, sizeof(stats_cur));", "	file_write_chunk(stats_tmps[rid], &stats_cur, sizeof(stats_cur));"),
    ("c20-node-record-by-every-thread", "C20", "log/stats.c", "	if(rid != 0)\n		return;\n\n	struct stats_node stats_node_cur", "	struct stats_node stats_node_cur"),
    ("c11-array-reserve-off-by-one", "C11", "datatypes/array.h", "		if(unlikely(tcnt >= array_capacity(self))) {                                                           \\", "		if(unlikely(tcnt > array_capacity(self) + 1)) {                                                           \\"),
    ("c11-ckpt-size-missing-addend", "C11", "mm/buddy/multi.c", "	array_add_at(self->buddies, i, new_buddy);\n	self->full_ckpt_size += offsetof(struct buddy_checkpoint, base_mem);", "	array_add_at(self->buddies, i, new_buddy);"),
    ("c02-anti-matched-on-seq-only", "C02", "lp/process.c", "	} while(is_msg_sent(msg) || msg->raw_flags != m_id || msg->m_seq != m_seq);", "	} while(is_msg_sent(msg) || msg->m_seq != m_seq);"),
    ("c02-early-antis-never-consulted", "C02", "lp/process.c", "	if(unlikely(flags && lp->p.early_antis && check_early_anti_messages(&lp->p, msg)))\n		return;", "	(void)check_early_anti_messages;"),
    ("c02-received-counted-wrong-colour", "C02", "gvt/gvt.h", "	++remote_msg_received[msg->raw_flags & 1U];\n	msg->raw_flags &= ~((uint32_t)3U);\n}\n\nstatic inline void gvt_remote_anti_msg_receive", "	++remote_msg_received[!(msg->raw_flags & 1U)];\n	msg->raw_flags &= ~((uint32_t)3U);\n}\n\nstatic inline void gvt_remote_anti_msg_receive"),
]


def main():
    flt = sys.argv[1] if len(sys.argv) > 1 else ""
    here = os.path.dirname(os.path.dirname(os.path.abspath(__file__)))
    for mid, chk, f, old, new in M:
        if flt and flt not in mid and flt != chk:
            continue
        tmp = tempfile.mkdtemp(prefix="rsxm_", dir="/var/tmp")
        try:
            shutil.copytree("/repo/src", tmp + "/src")
            p = os.path.join(tmp, "src", f)
            s = open(p).read()
            if s.count(old) != 1:
                print("%-44s %s anchor found %d times: SKIPPED" % (mid, chk, s.count(old)), flush=True)
                continue
            open(p, "w").write(s.replace(old, new))
            env = dict(os.environ, REPO=tmp)
            r = subprocess.run(["timeout", "3000", os.path.join(here, "check"), chk, "--tier", "quick"], stdout=subprocess.PIPE, stderr=subprocess.STDOUT, text=True, env=env)
            keys = [l.split("::")[0].replace("violation key=", "").strip() for l in r.stdout.splitlines() if l.startswith("violation key=")]
            foreign = [l for l in r.stdout.splitlines() if l.startswith("note: anomaly")]
            fkeys = sorted(set((l.split("belonging to ")[1].split(" ")[0] + ":" + l.split(": ", 2)[-1].split(" (reported")[0]) for l in foreign if "belonging to " in l))
            verdict = "CAUGHT" if r.returncode == 1 and "VIOLATION property=" in r.stdout else ("inconclusive" if r.returncode == 2 else "MISSED")
            if "HARNESS-FAILURE" in r.stdout:
                verdict = "does-not-build"
            print("%-44s %s %-12s keys=%s%s" % (mid, chk, verdict, ",".join(keys[:4]), (" | seen as other properties' anomalies: " + ",".join(fkeys[:5])) if foreign else ""), flush=True)
        finally:
            shutil.rmtree(tmp, ignore_errors=True)


if __name__ == "__main__":
    main()
