#!/bin/bash
# tools/mut.sh <check> <file-relative-to-src> <python-regex-old> <new> [tier]
# Applies one textual change to a scratch copy of /repo/src (outside /repo and /verif), runs the check against it.
set -u
CHK=$1; F=$2; OLD=$3; NEW=$4; TIER=${5:-quick}
S=/var/tmp/rsx
rm -rf $S; mkdir -p $S; cp -r /repo/src $S/src
python3 - "$S/src/$F" "$OLD" "$NEW" <<'PY'
import sys,re
p,old,new=sys.argv[1:4]
s=open(p).read()
n=s.count(old)
if n!=1:
    print("MUT: anchor count",n); sys.exit(3)
open(p,'w').write(s.replace(old,new))
PY
[ $? -eq 0 ] || exit 3
cd /verif
REPO=$S timeout 3000 ./check $CHK --tier $TIER > /tmp/mut_out.txt 2>&1
rc=$?
echo "rc=$rc $(grep -c '^VIOLATION' /tmp/mut_out.txt) violation line(s): $(grep '^violation key' /tmp/mut_out.txt | cut -c1-160 | head -3 | tr '\n' ';')"
rm -rf $S
