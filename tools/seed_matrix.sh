#!/bin/bash
# tools/seed_matrix.sh [ids...] : every seeded change (both rounds) against the check of its own property (quick tier). One line each.
cd "$(dirname "$0")/.."
ids="$@"
[ -z "$ids" ] && ids=$(ls seeded | grep -E '^C[0-9]{2}[bc]?$')
for id in $ids; do
  chk=${id%[bc]}
  echo "seed $id vs check $chk: $(tools/seed.sh $chk /verif/seeded/$id | cut -c1-260)"
done
