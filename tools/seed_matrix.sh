#!/bin/bash
# tools/seed_matrix.sh : every seeded change against the check of its own property (quick tier). One line each.
cd "$(dirname "$0")/.."
for id in C01 C02 C03 C04 C05 C06 C07 C08 C09 C10 C11 C12 C13 C14 C15 C16 C17 C18 C19 C20; do
  echo "seed $id vs check $id: $(tools/seed.sh $id /verif/seeded/$id | cut -c1-260)"
done
