/* Monitor layer behind the core's VH() hook points (see /repo/src/verif_hooks.h).
 * Linked only into the harness engines; never part of the core. */
#pragma once
#include <stdbool.h>
#include <stdint.h>
#include <stdio.h>

struct lp_ctx;

#define VH_MAXTHR 64
#define VH_MAXLP 4096

/* ---- configuration (set by the engine before RootsimRun) ---- */
struct vh_config {
	uint64_t perturb_seed;
	unsigned fp_level;        /* 0 no failpoints .. 3 aggressive */
	bool monitors;            /* per-message / per-LP monitors on (off for serial runs) */
	bool poison;              /* ASan-poison released message buffers */
	bool check_commit;        /* compare committed events with the reference (needs the model) */
	bool monotone_predicates; /* the model's predicates never flip back once true */
	bool baton;               /* serialized exploration: one worker thread runs at a time, switches only at hook points, seeded picks */
	unsigned digest_budget;   /* state digests are taken only while the LP's live buffers are below this many bytes */
	/* callbacks into the model side */
	uint64_t (*state_digest)(struct lp_ctx *lp); /* content-based digest of the LP state (addresses excluded) */
	/* reference sequence access for C03: returns false when the reference has no k-th event for lp */
	bool (*ref_event)(uint64_t lp, uint64_t k, double *ts, uint32_t *type, uint32_t *size, uint64_t *plh);
	uint64_t (*payload_hash)(const void *pl, unsigned size);
	/* C07: timestamp of the event after which the LP's predicate first holds in the sequential execution (-1: at initialisation);
	 * returns false when the reference does not know (LP never done within the reference horizon) */
	bool (*ref_pred_ts)(uint64_t lp, double *ts);
};
extern struct vh_config vh_cfg;

/* ---- violation sink (thread safe, flushes immediately) ---- */
extern void vh_violation(const char *prop, const char *key, const char *fmt, ...) __attribute__((format(printf, 3, 4)));
extern unsigned long long vh_violation_count(void);

/* ---- counters ---- */
enum vh_counter {
	VC_FWD, VC_SILENT, VC_ROLLBACK, VC_UNDONE, VC_CKPT, VC_ANTI_LOCAL, VC_ANTI_REMOTE, VC_SENDS_LOCAL, VC_SENDS_REMOTE,
	VC_STRAGGLER, VC_STRAGGLER_EQUAL_TS, VC_ANTI_DROP, VC_ANTI_ROLLBACK, VC_ANTI_REMOTE_FOUND, VC_ANTI_REMOTE_EARLY, VC_EARLY_MATCH,
	VC_CANCEL_BEFORE_PROCESS, VC_CANCEL_AFTER_PROCESS, VC_UNDO_WHILE_CANCELLED, VC_UNDO_REQUEUE, VC_EXTRACT_CANCELLED_UNPROCESSED, VC_EXTRACT_CANCELLED_REQUEUED,
	VC_GVT_ROUNDS, VC_FOSSIL, VC_FOSSIL_ENTRIES, VC_COMMITTED_CHECKED, VC_COMMIT_BEYOND_REF, VC_RB_DIGEST_CHECKED, VC_RB_DIGEST_SKIPPED,
	VC_RB_AFTER_FOSSIL, VC_RB_COAST0, VC_RB_COAST1, VC_RB_COAST_MANY, VC_RB_TO_ZERO, VC_CAS_RETRY, VC_SWAP_NONEMPTY, VC_FP_DELAYS,
	VC_EXTRACT, VC_MSG_ALLOC, VC_MSG_FREE, VC_QUEUE_LEFT, VC_VOTES, VC_TERM_CHECKS, VC_GVT_INITIATED, VC_INSERT_BETWEEN_PEEKS, VC_FINI_COMMITTED, VC_MUTED_SENDS,
	VC_ARENA_AFTER_CKPT, VC_DEPTH_MAX, VC_COAST_MAX, VC_COUNT
};
extern const char *vh_counter_name[VC_COUNT];
extern unsigned long long vh_counter_total(enum vh_counter c);

/* ---- per-thread GVT windows (C20) and GVT sequences (C04) ---- */
struct vh_window {
	double gvt;
	unsigned long long fwd, rollbacks, undone, silent, ckpt, anti;
};
extern unsigned vh_thread_windows(unsigned thr, const struct vh_window **w); /* closed windows of a thread */
extern struct vh_window vh_thread_open_window(unsigned thr);
extern double vh_thread_last_gvt(unsigned thr);
extern int vh_thread_seen(unsigned thr);
extern unsigned vh_threads_seen(void);

/* ---- per-LP results ---- */
extern uint64_t vh_lp_committed(uint64_t lp);     /* committed events compared so far (C03 cursor) */
extern int vh_lp_owner(uint64_t lp);
extern unsigned vh_lp_undone(uint64_t lp);
extern unsigned long long vh_baton_switches(void);
extern long long vh_unreleased_messages(void);
extern uint64_t vh_schedule_signature(void);

/* ---- watchdog support ---- */
extern unsigned long long vh_progress(void);
extern void vh_describe_threads(char *buf, size_t n, char *sig, size_t nsig);
extern void vh_post_run_checks(void); /* cross-thread GVT sequence equality etc. */
extern void vh_reset(void);
