/* Empty hook for engines that link core objects but observe nothing through hooks. */
#include <stdint.h>
void rs_verif_hook(unsigned point, const void *p, uint64_t a, uint64_t b) { (void)point; (void)p; (void)a; (void)b; }
