/* Monitors behind the core's hook points: online oracles for C03 C04 C05 C06 C13 C14 C20, stage table for the
 * C08 watchdog, failpoints. All per-LP state is touched only by the thread owning the LP, per-thread state only by
 * its thread; cross-thread facts use atomics stored in the message preamble (verif_* fields). */
#include "vhook.h"

#include <core/core.h>
#include <lp/lp.h>
#include <lp/msg.h>
#include <lp/process.h>
#include <mm/buddy/buddy.h>
#include <mm/buddy/multi.h>
#include <verif_hooks.h>

#include <pthread.h>
#include <sched.h>
#include <stdarg.h>
#include <stdlib.h>
#include <string.h>
#include <unistd.h>

#if defined(__SANITIZE_ADDRESS__)
#include <sanitizer/asan_interface.h>
#define HAVE_ASAN 1
#else
#define HAVE_ASAN 0
#define ASAN_POISON_MEMORY_REGION(a, s) ((void)(a), (void)(s))
#define ASAN_UNPOISON_MEMORY_REGION(a, s) ((void)(a), (void)(s))
#define __asan_address_is_poisoned(a) 0
#endif

struct vh_config vh_cfg;

const char *vh_counter_name[VC_COUNT] = {
    [VC_FWD] = "forward_executions", [VC_SILENT] = "silent_executions", [VC_ROLLBACK] = "rollbacks", [VC_UNDONE] = "undone_events",
    [VC_CKPT] = "checkpoints", [VC_ANTI_LOCAL] = "local_antimessages", [VC_ANTI_REMOTE] = "remote_antimessages_sent",
    [VC_SENDS_LOCAL] = "local_sends", [VC_SENDS_REMOTE] = "remote_sends", [VC_STRAGGLER] = "straggler_rollbacks",
    [VC_STRAGGLER_EQUAL_TS] = "stragglers_with_equal_timestamp", [VC_ANTI_DROP] = "antimessage_met_before_processing",
    [VC_ANTI_ROLLBACK] = "antimessage_rollbacks", [VC_ANTI_REMOTE_FOUND] = "remote_anti_found_in_history",
    [VC_ANTI_REMOTE_EARLY] = "remote_anti_parked_early", [VC_EARLY_MATCH] = "events_annihilated_by_early_anti",
    [VC_CANCEL_BEFORE_PROCESS] = "cancel_before_receiver_processed", [VC_CANCEL_AFTER_PROCESS] = "cancel_after_receiver_processed",
    [VC_UNDO_WHILE_CANCELLED] = "undo_of_already_cancelled_event", [VC_UNDO_REQUEUE] = "undo_requeued_event",
    [VC_EXTRACT_CANCELLED_UNPROCESSED] = "extracted_cancelled_unprocessed", [VC_EXTRACT_CANCELLED_REQUEUED] = "extracted_cancelled_requeued",
    [VC_GVT_ROUNDS] = "gvt_values_consumed", [VC_FOSSIL] = "fossil_collections", [VC_FOSSIL_ENTRIES] = "fossil_entries_released",
    [VC_COMMITTED_CHECKED] = "committed_events_checked", [VC_COMMIT_BEYOND_REF] = "commits_beyond_reference_horizon",
    [VC_RB_DIGEST_CHECKED] = "rollback_state_digests_checked", [VC_RB_DIGEST_SKIPPED] = "rollback_state_digests_skipped",
    [VC_RB_AFTER_FOSSIL] = "rollbacks_right_after_fossil", [VC_RB_COAST0] = "rollbacks_coast_0", [VC_RB_COAST1] = "rollbacks_coast_1",
    [VC_RB_COAST_MANY] = "rollbacks_coast_many", [VC_RB_TO_ZERO] = "rollbacks_to_history_start", [VC_CAS_RETRY] = "queue_cas_retries",
    [VC_SWAP_NONEMPTY] = "queue_swaps_nonempty", [VC_FP_DELAYS] = "failpoint_delays", [VC_EXTRACT] = "extractions",
    [VC_MSG_ALLOC] = "message_allocs", [VC_MSG_FREE] = "message_frees", [VC_QUEUE_LEFT] = "messages_left_in_queues_at_shutdown",
    [VC_VOTES] = "termination_votes", [VC_TERM_CHECKS] = "vote_rule_states_checked", [VC_GVT_INITIATED] = "gvt_rounds_initiated", [VC_INSERT_BETWEEN_PEEKS] = "reductions_with_in_hand_window_checked",
    [VC_FINI_COMMITTED] = "committed_at_shutdown_checked", [VC_MUTED_SENDS] = "sends_muted_in_silent_execution",
    [VC_ARENA_AFTER_CKPT] = "unused2", [VC_DEPTH_MAX] = "max_rollback_depth", [VC_COAST_MAX] = "max_coast_forward",
};

/* ---------------- violations ---------------- */
static pthread_mutex_t vmx = PTHREAD_MUTEX_INITIALIZER;
static struct { char key[100]; unsigned n; } vkeys[128];
static unsigned n_vkeys;
static _Atomic unsigned long long n_violations;

void vh_violation(const char *prop, const char *key, const char *fmt, ...)
{
	pthread_mutex_lock(&vmx);
	n_violations++;
	char full[120];
	snprintf(full, sizeof(full), "%s %s", prop, key);
	unsigned i;
	for(i = 0; i < n_vkeys; ++i)
		if(!strcmp(vkeys[i].key, full))
			break;
	if(i == n_vkeys && n_vkeys < 128) {
		snprintf(vkeys[i].key, sizeof(vkeys[i].key), "%s", full);
		vkeys[i].n = 0;
		n_vkeys++;
	}
	if(i < 128 && vkeys[i].n++ < 3) {
		va_list ap;
		va_start(ap, fmt);
		printf("VKEY %s %s | ", prop, key);
		vprintf(fmt, ap);
		printf("\n");
		fflush(stdout);
		va_end(ap);
	}
	pthread_mutex_unlock(&vmx);
}
unsigned long long vh_violation_count(void) { return n_violations; }

/* ---------------- state ---------------- */
enum { ST_IN_HIST = 1, ST_FREED = 2, ST_RELEASE_OK = 4, ST_ANTI_SEEN = 8, ST_REMOTE_COPY = 16 };

struct shent {
	uintptr_t tagged;
	uint64_t id;
	uint64_t mdigest; /* model-level (content) digest after the event */
	uint64_t abytes;  /* bytes allocated in the LP's arenas after the event */
	double ts;
	uint8_t kind; /* 0 event, 1 local sent, 2 remote sent */
	uint8_t handled;
	uint8_t digest_valid;
};
struct lpmon {
	struct shent *h;
	unsigned n, cap;
	uint64_t base_mdigest, base_abytes;
	int base_valid;
	unsigned *ck;
	unsigned n_ck, cap_ck;
	uint64_t committed; /* C03 cursor into the reference sequence */
	int owner;
	int in_rb;
	unsigned rb_past, rb_len_before;
	int fossil_just;
	unsigned fossils; /* fossil collections that shortened this LP's history so far */
	int commit_off; /* stop comparing (mismatch already reported or beyond the reference horizon) */
	uint64_t sig;
	int init_done, fini_done;
	unsigned undone;
	struct { uint32_t id, seq; } *early; /* remote anti-messages parked before their event arrived */
	unsigned n_early, cap_early;
};
static struct lpmon lpm[VH_MAXLP];

struct ftmp {
	double ts;
	uint32_t type, size;
	uint64_t plh;
	uint8_t is_evt;
};
struct thrmon {
	unsigned long long c[VC_COUNT];
	_Atomic unsigned long long progress;
	double last_gvt;
	double last_loop_gvt; /* last GVT handed to the thread in the main loop (values of reductions completed during shutdown do not commit anything:
	                         by then remote messages are discarded on arrival) */
	double *gvts;
	unsigned n_gvts, cap_gvts;
	struct vh_window *wins;
	unsigned n_wins, cap_wins;
	struct vh_window cur;
	_Atomic int stage, drain_stage, gvt_tphase, gvt_nphase, in_barrier;
	int seen;
	uint64_t fp;
	int in_forward, in_silent, in_init;
	struct ftmp *ft;
	unsigned ft_cap;
	double fossil_gvt;
	double vote_gvt;
	/* messages taken in hand while this thread's contribution to the current reduction was still open:
	 * from joining the reduction to the second (final) snapshot */
	int red_open, red_csteps;
	double red_min_ts;
	uint64_t red_min_id;
	unsigned red_min_flags;
};
static struct thrmon thr[VH_MAXTHR];
static _Atomic uint64_t next_msg_id = 1;
static _Atomic long long live_msgs;
static _Atomic long long queued_msgs; /* inserted in a queue and neither extracted nor found there at shutdown */

#define T (&thr[rid < VH_MAXTHR ? rid : 0])
#define CNT(x) (T->c[x]++)
#define PROGRESS() atomic_fetch_add_explicit(&T->progress, 1, memory_order_relaxed)

static inline struct lpmon *LM(const struct lp_ctx *lp)
{
	uint64_t id = (uint64_t)(lp - lps);
	return &lpm[id < VH_MAXLP ? id : VH_MAXLP - 1];
}

static inline uint64_t fp_next(struct thrmon *t)
{
	uint64_t z = (t->fp += 0x9E3779B97F4A7C15ULL);
	z = (z ^ (z >> 30)) * 0xBF58476D1CE4E5B9ULL;
	z = (z ^ (z >> 27)) * 0x94D049BB133111EBULL;
	return z ^ (z >> 31);
}

/* failpoint: only at places where the OS could pre-empt the thread anyway */
static void failpoint(unsigned one_in, unsigned kind_mask)
{
	if(!vh_cfg.fp_level || !one_in)
		return;
	struct thrmon *t = T;
	if(!t->fp)
		t->fp = vh_cfg.perturb_seed * 0x2545F4914F6CDD1DULL + rid * 7919 + 1;
	uint64_t r = fp_next(t);
	if(r % one_in)
		return;
	t->c[VC_FP_DELAYS]++;
	unsigned k = (unsigned)((r >> 20) % 8);
	if(k < 4 || !(kind_mask & 2)) {
		sched_yield();
	} else if(k < 7 || !(kind_mask & 4)) {
		unsigned n = 100 + (unsigned)((r >> 32) % (vh_cfg.fp_level >= 3 ? 100000 : 10000));
		for(volatile unsigned i = 0; i < n; ++i) {}
	} else {
		usleep(20 + (unsigned)((r >> 32) % (vh_cfg.fp_level >= 3 ? 2000 : 300)));
	}
}

/* ---------------- helpers ---------------- */
static void poison_msg(struct lp_msg *m)
{
	if(!HAVE_ASAN || !vh_cfg.poison)
		return;
	/* keep `next`, the verif_* shadow fields and pl_size (read by the core right after the hook) accessible */
	size_t s1 = offsetof(struct lp_msg, dest), e1 = offsetof(struct lp_msg, pl_size) & ~(size_t)7;
	size_t s2 = (offsetof(struct lp_msg, pl_size) + 4 + 7) & ~(size_t)7, e2 = sizeof(struct lp_msg);
	ASAN_POISON_MEMORY_REGION((char *)m + s1, e1 - s1);
	ASAN_POISON_MEMORY_REGION((char *)m + s2, e2 - s2);
}
static void unpoison_msg(struct lp_msg *m)
{
	if(!HAVE_ASAN || !vh_cfg.poison)
		return;
	ASAN_UNPOISON_MEMORY_REGION(m, sizeof(struct lp_msg));
}

static uint64_t allocated_bytes(const struct lp_ctx *lp)
{
	uint64_t tot = 0;
	const struct mm_state *mm = &lp->mm_state;
	for(array_count_t a = 0; a < array_count(mm->buddies); ++a) {
		const struct buddy_state *b = array_get_at(mm->buddies, a);
		struct { uint32_t i; uint8_t l; } st[64];
		int sp = 0;
		st[sp].i = 0;
		st[sp++].l = B_TOTAL_EXP;
		while(sp) {
			uint32_t i = st[--sp].i;
			uint8_t l = st[sp].l;
			uint8_t lon = b->longest[i];
			if(lon == 0) {
				tot += 1ULL << l;
			} else if(lon != l && l > B_BLOCK_EXP) {
				st[sp].i = buddy_left_child(i);
				st[sp++].l = l - 1;
				st[sp].i = buddy_right_child(i);
				st[sp++].l = l - 1;
			}
		}
	}
	return tot;
}

static void sh_push(struct lpmon *m, struct shent e)
{
	if(m->n == m->cap) {
		m->cap = m->cap ? m->cap * 2 : 64;
		m->h = realloc(m->h, m->cap * sizeof(*m->h));
	}
	m->h[m->n++] = e;
}

static void take_digest(struct lp_ctx *lp, struct shent *e)
{
	e->digest_valid = 0;
	if(!vh_cfg.state_digest)
		return;
	e->abytes = allocated_bytes(lp);
	if(vh_cfg.digest_budget && e->abytes > vh_cfg.digest_budget && (LM(lp)->n & 7))
		return; /* large live sets: sampled */
	e->mdigest = vh_cfg.state_digest(lp);
	e->digest_valid = 1;
}

static void owner_check(struct lp_ctx *lp, const char *where)
{
	struct lpmon *m = LM(lp);
	if(m->owner != (int)rid + 1)
		vh_violation("C14", "lp-touched-by-non-owner", "LP %llu initialised by thread %d but %s on thread %u", (unsigned long long)(lp - lps),
		    m->owner - 1, where, rid);
	if(lid_to_nid(lp - lps) != nid || lid_to_rid(lp - lps) != rid)
		vh_violation("C14", "routing-disagrees-with-owner", "LP %llu handled on (node %d, thread %u) but routed to (node %d, thread %u)",
		    (unsigned long long)(lp - lps), nid, rid, lid_to_nid(lp - lps), lid_to_rid(lp - lps));
}

/* committed event check against the reference sequence (C03) and its post-state (C01) */
static void commit_event(uint64_t lpid, struct lpmon *m, const struct ftmp *f, const struct shent *e, const char *where)
{
	if(!vh_cfg.check_commit || !vh_cfg.ref_event || m->commit_off)
		return;
	if(f->type == LP_INIT)
		return;
	double ts;
	uint32_t type, size;
	uint64_t plh;
	uint64_t k = m->committed;
	if(!vh_cfg.ref_event(lpid, k, &ts, &type, &size, &plh)) {
		CNT(VC_COMMIT_BEYOND_REF);
		m->commit_off = 1;
		return;
	}
	m->committed++;
	CNT(VC_COMMITTED_CHECKED);
	if(ts != f->ts || type != f->type || size != f->size || plh != f->plh) {
		vh_violation("C03", "committed-event-not-in-sequential-order", "LP %llu: committed event #%llu (%s) is {t=%a,type=%u,size=%u,plh=%llx}; the sequential execution delivers {t=%a,type=%u,size=%u,plh=%llx} at that position",
		    (unsigned long long)lpid, (unsigned long long)k, where, f->ts, f->type, f->size, (unsigned long long)f->plh, ts, type, size,
		    (unsigned long long)plh);
		m->commit_off = 1;
		return;
	}
	(void)e;
}

/* ---------------- baton scheduler (optional exploration mode) ----------------
 * With vh_cfg.baton set, worker threads run ONE AT A TIME: a thread gives the baton away only at hook points (end of a main-loop
 * iteration, entry of a GVT step, inside every waiting loop) to a thread picked by a seeded PRNG with per-thread weights. Every
 * schedule produced is one the OS could produce (pre-emption at those points, arbitrarily long stalls), it is a function of the
 * seed only, and a starved thread costs nothing - so narrow windows that need one thread to stand still while others take several
 * steps are entered routinely. Busy-wait loops always yield, otherwise the serialized program could not make progress. */
static pthread_mutex_t bt_mx = PTHREAD_MUTEX_INITIALIZER;
static pthread_cond_t bt_cv = PTHREAD_COND_INITIALIZER;
static int bt_holder = -1;
static unsigned bt_registered, bt_finished; /* bit masks (<= 32 threads) */
static uint64_t bt_rng;
static unsigned bt_weight[32];
static unsigned long long bt_switches;
static unsigned long long bt_last_run[32]; /* switch count at which each thread last held the baton */

static uint64_t bt_next(void)
{
	uint64_t z = (bt_rng += 0x9E3779B97F4A7C15ULL);
	z = (z ^ (z >> 30)) * 0xBF58476D1CE4E5B9ULL;
	z = (z ^ (z >> 27)) * 0x94D049BB133111EBULL;
	return z ^ (z >> 31);
}
/* caller holds bt_mx */
static int bt_pick(void)
{
	unsigned live = bt_registered & ~bt_finished, tot = 0;
	if(!live)
		return -1;
	for(unsigned i = 0; i < 32; ++i)
		if(live & (1U << i))
			tot += bt_weight[i];
	/* bounded starvation: optimism is unbounded in the core, a thread that never runs lets the others speculate (and allocate) forever */
	for(unsigned i = 0; i < 32; ++i)
		if((live & (1U << i)) && bt_switches - bt_last_run[i] > 400)
			return (int)i;
	unsigned r = (unsigned)(bt_next() % tot);
	for(unsigned i = 0; i < 32; ++i)
		if(live & (1U << i)) {
			if(r < bt_weight[i])
				return (int)i;
			r -= bt_weight[i];
		}
	return -1;
}
static void baton_enter(void)
{
	if(!vh_cfg.baton || rid >= 32)
		return;
	pthread_mutex_lock(&bt_mx);
	if(!bt_rng) {
		bt_rng = vh_cfg.perturb_seed * 0x9E3779B97F4A7C15ULL + 77;
		for(unsigned i = 0; i < 32; ++i) { /* some threads are picked 1/16 as often as others: long stalls */
			static const unsigned w[] = {16, 16, 8, 4, 16, 2, 16, 2};
			bt_weight[i] = w[bt_next() % 8];
		}
	}
	bt_registered |= 1U << rid;
	if(bt_holder < 0)
		bt_holder = (int)rid;
	while(bt_holder != (int)rid)
		pthread_cond_wait(&bt_cv, &bt_mx);
	pthread_mutex_unlock(&bt_mx);
}
static void baton_yield(unsigned one_in)
{
	if(!vh_cfg.baton || rid >= 32 || bt_holder != (int)rid)
		return;
	pthread_mutex_lock(&bt_mx);
	if(one_in <= 1 || bt_next() % one_in == 0) {
		int n = bt_pick();
		if(n >= 0 && n != (int)rid) {
			bt_switches++;
			bt_last_run[n] = bt_switches;
			bt_holder = n;
			pthread_cond_broadcast(&bt_cv);
			while(bt_holder != (int)rid)
				pthread_cond_wait(&bt_cv, &bt_mx);
		}
	}
	pthread_mutex_unlock(&bt_mx);
}
static void baton_leave(void)
{
	if(!vh_cfg.baton || rid >= 32)
		return;
	pthread_mutex_lock(&bt_mx);
	bt_finished |= 1U << rid;
	if(bt_holder == (int)rid) {
		bt_holder = bt_pick();
		pthread_cond_broadcast(&bt_cv);
	}
	pthread_mutex_unlock(&bt_mx);
}
unsigned long long vh_baton_switches(void) { return bt_switches; }

/* ---------------- the hook ---------------- */
void rs_verif_hook(unsigned point, const void *p, uint64_t a, uint64_t b)
{
	struct thrmon *t = T;
	switch(point) {
		/* ---------- life cycle / stages ---------- */
		case VH_STAGE:
			t->seen = 1;
			atomic_store_explicit(&t->stage, (int)a, memory_order_relaxed);
			PROGRESS();
			if(a == VS_THREAD_START)
				baton_enter();
			else if(a == VS_THREAD_DONE)
				baton_leave();
			if(a == VS_LOOP_EXIT)
				failpoint(vh_cfg.fp_level >= 2 ? 2 : 0, 7);
			return;
		case VH_DRAIN:
			if(a == 5) { /* one more turn of a waiting loop of gvt_msg_drain(): not a state change */
				baton_yield(1);
				return;
			}
			atomic_store_explicit(&t->drain_stage, (int)a + 1, memory_order_relaxed);
			PROGRESS();
			failpoint(vh_cfg.fp_level >= 2 ? 3 : 0, 7);
			return;
		case VH_GVT_STAGE: {
			if(b == 1 || (b == 2 && a >= 16 + 1)) /* entry of a thread-level step / of a node-level step that may have to wait */
				baton_yield(atomic_load_explicit(&t->stage, memory_order_relaxed) >= VS_LOOP_EXIT ? 1 : 3);
			_Atomic int *slot = a >= 16 ? &t->gvt_nphase : &t->gvt_tphase;
			int v = (int)(a >= 16 ? a - 16 : a);
			if(atomic_load_explicit(slot, memory_order_relaxed) != v) {
				int was = atomic_load_explicit(slot, memory_order_relaxed);
				atomic_store_explicit(slot, v, memory_order_relaxed);
				PROGRESS();
				if(a < 16) {
					if(v == 1 && t->red_csteps != 1) { /* first phase of a NEW reduction (a reduction whose value is 0.0 is never handed out) */
						t->red_open = 1;
						t->red_csteps = 0;
						t->red_min_ts = SIMTIME_MAX;
					} else if(was == 3 && v == 4 && t->red_open && ++t->red_csteps == 2) {
						t->red_open = 0; /* final snapshot taken */
					}
				}
				if(a == 2 && vh_cfg.fp_level >= 2 && fp_next(t) % (vh_cfg.fp_level >= 3 ? 3 : 10) == 0) {
					/* descheduled right after the first snapshot, for long enough that threads which have not joined the reduction yet finish
					 * their batch, join and take their own snapshot: what they sent to this thread meanwhile is covered by nobody's snapshot */
					t->c[VC_FP_DELAYS]++;
					usleep(1200 + (unsigned)(fp_next(t) % 3000));
				}
			}
			if(a == 2 && vh_cfg.fp_level >= 2 && fp_next(t) % (vh_cfg.fp_level >= 3 ? 40 : 200) == 0) {
				/* a thread descheduled while it waits for the others to take their first snapshot: messages sent to it meanwhile by threads that
				 * have not joined the reduction yet are covered by nobody's snapshot and are extracted only after it moved to the next phase */
				t->c[VC_FP_DELAYS]++;
				usleep(150 + (unsigned)(fp_next(t) % 700));
			} else {
				failpoint(vh_cfg.fp_level >= 3 ? 8 : vh_cfg.fp_level == 2 ? 40 : 0, 3);
			}
			return;
		}
		case VH_GVT_INITIATE:
			CNT(VC_GVT_INITIATED);
			PROGRESS();
			return;
		case VH_GVT_CTRL:
			PROGRESS();
			return;
		case VH_BARRIER_ENTER:
			atomic_store_explicit(&t->in_barrier, 1, memory_order_relaxed);
			return;
		case VH_BARRIER_SPIN:
			baton_yield(1);
			failpoint(vh_cfg.fp_level >= 3 ? 5000 : 0, 1);
			return;
		case VH_BARRIER_EXIT:
			atomic_store_explicit(&t->in_barrier, 0, memory_order_relaxed);
			PROGRESS();
			return;
		case VH_LOOP_TAIL:
			baton_yield(2);
			failpoint(vh_cfg.fp_level >= 3 ? 40 : vh_cfg.fp_level == 2 ? 300 : vh_cfg.fp_level == 1 ? 2000 : 0, 7);
			return;
		case VH_TERM_CHECK: {
			/* Predictive form of the vote oracle. The thread votes at the first GVT g with (no LP left) and (thread maximum < g); that is
			 * sound for every value g can take only if the maximum covers the terminating event of every LP counted as done and the count of
			 * LPs left is not below the number of LPs whose termination is currently undone. A state that breaks this is (once the LPs left
			 * are done at earlier timestamps) one GVT value in the uncovered interval away from a vote on a state that can still be undone;
			 * which GVT value comes next is up to the schedule. The unchanged code keeps the maximum monotone, so it is never in such a state. */
			if(!vh_cfg.monitors || global_config.serial)
				return;
			double mx;
			memcpy(&mx, &a, 8);
			if(mx == SIMTIME_MAX)
				return; /* already voted */
			uint64_t undone = 0;
			for(uint64_t i = lid_thread_first; i < lid_thread_end; ++i) {
				double tt = lps[i].termination_t;
				undone += tt < 0;
				if(tt >= 0 && tt != SIMTIME_MAX && tt > mx)
					vh_violation("C07", "vote-threshold-below-a-terminating-event", "thread %u votes at the first GVT above %a once no LP is left (%llu left now), but LP %llu, counted as done, is done only since its event at %a: a GVT in between ends the run on a state that can still be undone", rid, mx, (unsigned long long)b, (unsigned long long)i, tt);
			}
			if(b < undone)
				vh_violation("C07", "lps-left-undercounted", "thread %u counts %llu LP(s) left while %llu LP(s) have their termination undone", rid, (unsigned long long)b, (unsigned long long)undone);
			CNT(VC_TERM_CHECKS);
			return;
		}
		case VH_TERM_VOTE: {
			CNT(VC_VOTES);
			memcpy(&t->vote_gvt, &a, 8);
			PROGRESS();
			/* A vote is irrevocable. For monotone predicates (the only ones the model family has) an LP whose CURRENT state does not satisfy
			 * its predicate has never satisfied it on a state that is still valid: voting now means ending on a rolled-back state. */
			if(vh_cfg.monitors && vh_cfg.monotone_predicates && !global_config.serial && t->vote_gvt < global_config.termination_time)
				for(uint64_t i = lid_thread_first; i < lid_thread_end; ++i)
					if(!global_config.committed(i, lps[i].state_pointer))
						vh_violation("C07", "voted-with-predicate-false", "thread %u voted for termination at GVT %a while LP %llu does not satisfy its predicate on its current state", rid, t->vote_gvt, (unsigned long long)i);
			/* The vote claims that every LP of the thread is done on a state that can no longer be undone, i.e. that its predicate first held
			 * at an event strictly below this GVT. Events below a GVT are committed, hence the same as in the sequential execution: the
			 * sequential "first true" timestamp of every LP of a voting thread must be below the GVT of the vote. */
			if(vh_cfg.monitors && vh_cfg.monotone_predicates && vh_cfg.ref_pred_ts && !global_config.serial && t->vote_gvt < global_config.termination_time)
				for(uint64_t i = lid_thread_first; i < lid_thread_end; ++i) {
					double pts;
					if(vh_cfg.ref_pred_ts(i, &pts) && !(pts < t->vote_gvt))
						vh_violation("C07", "voted-before-predicate-committed", "thread %u voted for termination at GVT %a while LP %llu first satisfies its predicate at timestamp %a in the sequential execution (not below that GVT: the state it is done on can still be undone)", rid, t->vote_gvt, (unsigned long long)i, pts);
				}
			return;
		}
		/* ---------- queue ---------- */
		case VH_Q_CAS_GAP:
			failpoint(vh_cfg.fp_level >= 3 ? 20 : vh_cfg.fp_level == 2 ? 100 : vh_cfg.fp_level == 1 ? 1000 : 0, 3);
			return;
		case VH_Q_CAS_RETRY:
			CNT(VC_CAS_RETRY);
			return;
		case VH_Q_SWAP:
			if(p)
				CNT(VC_SWAP_NONEMPTY);
			return;
		default:
			break;
	}
	if(!vh_cfg.monitors)
		return;

	switch(point) {
		/* ---------- message allocator ---------- */
		case VH_MSG_ALLOC: {
			struct lp_msg *m = (struct lp_msg *)p;
			unpoison_msg(m);
			m->verif_id = atomic_fetch_add_explicit(&next_msg_id, 1, memory_order_relaxed);
			atomic_store_explicit(&m->verif_q, 0, memory_order_relaxed);
			atomic_store_explicit(&m->verif_st, 0, memory_order_relaxed);
			m->verif_aux = 0;
			atomic_fetch_add_explicit(&live_msgs, 1, memory_order_relaxed);
			CNT(VC_MSG_ALLOC);
			return;
		}
		case VH_MSG_FREE: {
			struct lp_msg *m = (struct lp_msg *)p;
			if(HAVE_ASAN && vh_cfg.poison && __asan_address_is_poisoned(&m->dest)) {
				vh_violation("C06", "buffer-released-twice", "message id %llu is released although it already sits in the free list", (unsigned long long)m->verif_id);
				return;
			}
			uint32_t st = atomic_load_explicit(&m->verif_st, memory_order_relaxed);
			if(st & ST_FREED) {
				vh_violation("C06", "buffer-released-twice", "message id %llu released twice", (unsigned long long)m->verif_id);
				return;
			}
			if(atomic_load_explicit(&m->verif_q, memory_order_relaxed) != 0)
				vh_violation("C06", "buffer-released-while-queued", "message id %llu {t=%a,type=%u} released while still in a queue", (unsigned long long)m->verif_id, m->dest_t, m->m_type);
			if(st & ST_IN_HIST)
				vh_violation("C06", "buffer-released-while-in-history", "message id %llu {t=%a,type=%u} released while still referenced as a processed event", (unsigned long long)m->verif_id, m->dest_t, m->m_type);
			if(!(st & ST_RELEASE_OK) && !(m->raw_flags & MSG_FLAG_ANTI))
				vh_violation("C06", "valid-message-removed", "message id %llu {t=%a,type=%u,flags=%x} released although it was neither cancelled, committed nor left over at shutdown",
				    (unsigned long long)m->verif_id, m->dest_t, m->m_type, m->raw_flags);
			atomic_fetch_or_explicit(&m->verif_st, ST_FREED, memory_order_relaxed);
			atomic_fetch_sub_explicit(&live_msgs, 1, memory_order_relaxed);
			CNT(VC_MSG_FREE);
			if(m->pl_size <= MSG_PAYLOAD_BASE_SIZE)
				poison_msg(m);
			return;
		}
		case VH_MSG_FREE_AT_GVT:
			return;
		case VH_MSG_GVT_RELEASE: {
			struct lp_msg *m = (struct lp_msg *)p;
			atomic_fetch_or_explicit(&m->verif_st, ST_RELEASE_OK, memory_order_relaxed);
			return;
		}
		/* ---------- queue membership ---------- */
		case VH_Q_INSERT: {
			struct lp_msg *m = (struct lp_msg *)p;
			uint32_t st = atomic_load_explicit(&m->verif_st, memory_order_relaxed);
			if(st & ST_FREED)
				vh_violation("C06", "released-buffer-inserted", "message id %llu inserted in a queue after its release", (unsigned long long)m->verif_id);
			atomic_fetch_add_explicit(&queued_msgs, 1, memory_order_relaxed);
			uint32_t q = atomic_fetch_add_explicit(&m->verif_q, 1, memory_order_relaxed);
			if(q != 0)
				vh_violation("C06", "message-queued-twice", "message id %llu {t=%a,type=%u,flags=%x} inserted while already queued (%u)", (unsigned long long)m->verif_id, m->dest_t, m->m_type, m->raw_flags, q);
			if(!(m->dest >= lid_node_first && m->dest < lid_node_first + n_lps_node))
				vh_violation("C14", "queue-insert-for-lp-of-another-node", "node %d (LPs %llu..%llu) puts message id %llu for LP %llu in a local queue (thread index %llu of %u)", (int)nid, (unsigned long long)lid_node_first,
				    (unsigned long long)(lid_node_first + n_lps_node - 1), (unsigned long long)m->verif_id, (unsigned long long)m->dest, (unsigned long long)a, global_config.n_threads);
			else if(LM(&lps[m->dest])->owner && (int)a != LM(&lps[m->dest])->owner - 1)
				vh_violation("C14", "queue-insert-to-non-owner-thread", "message for LP %llu (initialised by thread %d) inserted in the queue of thread %llu", (unsigned long long)m->dest, LM(&lps[m->dest])->owner - 1, (unsigned long long)a);
			failpoint(vh_cfg.fp_level >= 3 ? 200 : 0, 3);
			return;
		}
		case VH_EXTRACT: {
			struct lp_msg *m = (struct lp_msg *)p;
			CNT(VC_EXTRACT);
			atomic_fetch_sub_explicit(&queued_msgs, 1, memory_order_relaxed);
			uint32_t q = atomic_fetch_sub_explicit(&m->verif_q, 1, memory_order_relaxed);
			if(q != 1)
				vh_violation("C06", "extracted-message-not-queued-once", "message id %llu extracted while its queue count was %u", (unsigned long long)m->verif_id, q);
			uint32_t st = atomic_load_explicit(&m->verif_st, memory_order_relaxed);
			if((st & ST_IN_HIST) && !(m->raw_flags & MSG_FLAG_ANTI))
				vh_violation("C06", "valid-event-delivered-twice", "message id %llu {t=%a,type=%u} extracted again while it is still a processed, valid event", (unsigned long long)m->verif_id, m->dest_t, m->m_type);
			if(st & ST_FREED)
				vh_violation("C06", "released-buffer-extracted", "message id %llu extracted after its release", (unsigned long long)m->verif_id);
			if(m->dest_t < t->last_gvt)
				vh_violation("C04", "extracted-below-gvt", "thread %u extracted message id %llu {t=%a,type=%u,flags=%x} after having been told GVT %a", rid, (unsigned long long)m->verif_id, m->dest_t, m->m_type, m->raw_flags, t->last_gvt);
			if(t->red_open && m->dest_t < t->red_min_ts) {
				t->red_min_ts = m->dest_t;
				t->red_min_id = m->verif_id;
				t->red_min_flags = m->raw_flags;
			}
			if(lid_to_nid(m->dest) != nid || lid_to_rid(m->dest) != rid)
				vh_violation("C14", "message-extracted-by-non-owner", "message for LP %llu extracted on thread %u", (unsigned long long)m->dest, rid);
			failpoint(vh_cfg.fp_level >= 3 ? 100 : vh_cfg.fp_level == 2 ? 1000 : 0, 3);
			return;
		}
		case VH_PROC_FLAG: {
			struct lp_msg *m = (struct lp_msg *)p;
			uint32_t prev = (uint32_t)a & 3U;
			if(prev == MSG_FLAG_PROCESSED)
				vh_violation("C06", "processed-event-extracted-again", "message id %llu extracted with PROCESSED already set and not cancelled", (unsigned long long)m->verif_id);
			else if(prev == MSG_FLAG_ANTI)
				CNT(VC_EXTRACT_CANCELLED_UNPROCESSED);
			else if(prev == (MSG_FLAG_ANTI | MSG_FLAG_PROCESSED))
				CNT(VC_EXTRACT_CANCELLED_REQUEUED);
			if(prev & MSG_FLAG_ANTI) {
				/* an extracted anti-message is about to cause a rollback that emits further anti-messages: a stall right here lets the other
				 * threads run ahead through the GVT phases while this cascade is neither in a queue nor yet re-emitted */
				if(vh_cfg.fp_level >= 2 && fp_next(t) % (vh_cfg.fp_level >= 3 ? 3 : 12) == 0) {
					t->c[VC_FP_DELAYS]++;
					usleep(100 + (unsigned)(fp_next(t) % 1500));
				}
			} else {
				failpoint(vh_cfg.fp_level >= 3 ? 50 : vh_cfg.fp_level == 2 ? 400 : 0, 3);
			}
			return;
		}
		/* ---------- forward execution ---------- */
		case VH_FWD_BEGIN: {
			t->in_forward = 1;
			struct lp_msg *m = (struct lp_msg *)p;
			struct lpmon *lm = LM((struct lp_ctx *)(uintptr_t)a);
			if(lm->n_early && (atomic_load_explicit(&m->verif_st, memory_order_relaxed) & ST_REMOTE_COPY))
				for(unsigned i = 0; i < lm->n_early; ++i)
					if(lm->early[i].id == (m->raw_flags & ~3U) && lm->early[i].seq == m->m_seq) {
						vh_violation("C06", "cancelled-remote-event-delivered", "LP %llu executes remote event id %llu {t=%a,type=%u} although its anti-message arrived before it and was parked", (unsigned long long)m->dest, (unsigned long long)m->verif_id, m->dest_t, m->m_type);
						lm->early[i] = lm->early[--lm->n_early];
						break;
					}
			return;
		}
		case VH_SEND: {
			struct lp_msg *m = (struct lp_msg *)p;
			if(t->in_silent)
				vh_violation("C05", "event-emitted-during-silent-execution", "a re-executed event of LP %llu scheduled message id %llu", (unsigned long long)(current_lp - lps), (unsigned long long)m->verif_id);
			CNT(a ? VC_SENDS_REMOTE : VC_SENDS_LOCAL);
			{ /* C14 at the send site: handled as local exactly when the receiver is one of the LPs this node initialised */
				bool mine = m->dest >= lid_node_first && m->dest < lid_node_first + n_lps_node;
				if(mine == (a != 0))
					vh_violation("C14", "send-routing-disagrees-with-ownership", "node %d (LPs %llu..%llu) treats the event for LP %llu as %s", (int)nid, (unsigned long long)lid_node_first,
					    (unsigned long long)(lid_node_first + n_lps_node - 1), (unsigned long long)m->dest, a ? "remote" : "local");
			}
			struct lpmon *lm = LM(current_lp);
			sh_push(lm, (struct shent){.tagged = (uintptr_t)m | (a ? 2 : 1), .id = m->verif_id, .ts = m->dest_t, .kind = a ? 2 : 1});
			return;
		}
		case VH_SEND_MUTED:
			CNT(VC_MUTED_SENDS);
			if(!t->in_silent)
				vh_violation("C05", "send-suppressed-outside-silent-execution", "ScheduleNewEvent to LP %llu was dropped during a forward execution", (unsigned long long)a);
			return;
		case VH_LP_INIT_DONE: {
			struct lp_ctx *lp = (struct lp_ctx *)p;
			struct lpmon *lm = LM(lp);
			lm->owner = (int)rid + 1;
			if(lm->init_done++)
				vh_violation("C14", "lp-initialised-twice", "LP %llu initialised twice", (unsigned long long)(lp - lps));
			struct lp_msg *im = array_peek(lp->p.p_msgs);
			struct shent e = {.tagged = (uintptr_t)im, .id = im->verif_id, .ts = im->dest_t, .kind = 0};
			take_digest(lp, &e);
			sh_push(lm, e);
			atomic_fetch_or_explicit(&im->verif_st, ST_IN_HIST, memory_order_relaxed);
			if(lm->n != array_count(lp->p.p_msgs))
				vh_violation("C05", "history-shadow-mismatch", "LP %llu after init: history has %u entries, %u operations observed", (unsigned long long)(lp - lps), (unsigned)array_count(lp->p.p_msgs), lm->n);
			owner_check(lp, "initialised");
			t->cur.fwd++; /* the LP_INIT execution is accounted as a processed message in the first statistics record */
			PROGRESS();
			return;
		}
		case VH_FWD_END: {
			struct lp_ctx *lp = (struct lp_ctx *)p;
			struct lp_msg *m = (struct lp_msg *)(uintptr_t)a;
			struct lpmon *lm = LM(lp);
			t->in_forward = 0;
			CNT(VC_FWD);
			t->cur.fwd++;
			PROGRESS();
			owner_check(lp, "executed");
			struct shent e = {.tagged = (uintptr_t)m, .id = m->verif_id, .ts = m->dest_t, .kind = 0};
			take_digest(lp, &e);
			sh_push(lm, e);
			lm->fossil_just = 0;
			uint32_t st = atomic_fetch_or_explicit(&m->verif_st, ST_IN_HIST, memory_order_relaxed);
			if(st & ST_IN_HIST)
				vh_violation("C06", "event-in-history-twice", "message id %llu pushed in a history while already in one", (unsigned long long)m->verif_id);
			if(lm->n != array_count(lp->p.p_msgs) || array_peek(lp->p.p_msgs) != m)
				vh_violation("C05", "history-shadow-mismatch", "LP %llu: history has %u entries, monitor observed %u", (unsigned long long)(lp - lps), (unsigned)array_count(lp->p.p_msgs), lm->n);
			failpoint(vh_cfg.fp_level >= 3 ? 300 : 0, 7);
			return;
		}
		/* ---------- rollback ---------- */
		case VH_BRANCH: {
			struct lp_msg *m = (struct lp_msg *)p;
			switch(a) {
				case VB_STRAGGLER: {
					CNT(VC_STRAGGLER);
					struct lp_ctx *lp = &lps[m->dest];
					if(array_count(lp->p.p_msgs) && ((struct lp_msg *)array_peek(lp->p.p_msgs))->dest_t == m->dest_t)
						CNT(VC_STRAGGLER_EQUAL_TS);
					break;
				}
				case VB_ANTI_DROP: CNT(VC_ANTI_DROP); break;
				case VB_ANTI_ROLLBACK: CNT(VC_ANTI_ROLLBACK); break;
				case VB_ANTI_REMOTE_FOUND:
					CNT(VC_ANTI_REMOTE_FOUND);
					if(b)
						atomic_fetch_or_explicit(&((struct lp_msg *)(uintptr_t)b)->verif_st, ST_RELEASE_OK, memory_order_relaxed);
					break;
				case VB_ANTI_REMOTE_EARLY: {
					CNT(VC_ANTI_REMOTE_EARLY);
					struct lpmon *lm = LM(&lps[m->dest]);
					if(lm->n_early == lm->cap_early) {
						lm->cap_early = lm->cap_early ? lm->cap_early * 2 : 16;
						lm->early = realloc(lm->early, lm->cap_early * sizeof(*lm->early));
					}
					lm->early[lm->n_early].id = m->raw_flags & ~3U;
					lm->early[lm->n_early++].seq = m->m_seq;
					break;
				}
				case VB_EARLY_MATCH: {
					struct lpmon *lm = LM(&lps[m->dest]);
					for(unsigned i = 0; i < lm->n_early; ++i)
						if(lm->early[i].id == (m->raw_flags & ~3U) && lm->early[i].seq == m->m_seq) {
							lm->early[i] = lm->early[--lm->n_early];
							break;
						}
				}
					CNT(VC_EARLY_MATCH);
					atomic_fetch_or_explicit(&m->verif_st, ST_RELEASE_OK, memory_order_relaxed);
					if(b)
						atomic_fetch_or_explicit(&((struct lp_msg *)(uintptr_t)b)->verif_st, ST_RELEASE_OK, memory_order_relaxed);
					break;
				default: break;
			}
			return;
		}
		case VH_RB_BEGIN: {
			struct lp_ctx *lp = (struct lp_ctx *)p;
			struct lpmon *lm = LM(lp);
			lm->in_rb = 1;
			lm->rb_past = (unsigned)a;
			lm->rb_len_before = lm->n;
			CNT(VC_ROLLBACK);
			t->cur.rollbacks++;
			owner_check(lp, "rolled back");
			if(a > lm->n)
				vh_violation("C05", "rollback-target-beyond-history", "LP %llu rollback to %llu with %u entries", (unsigned long long)(lp - lps), (unsigned long long)a, lm->n);
			return;
		}
		case VH_ANTI_LOCAL:
		case VH_ANTI_REMOTE: {
			struct lp_msg *m = (struct lp_msg *)p;
			struct lpmon *lm = LM(current_lp);
			CNT(point == VH_ANTI_LOCAL ? VC_ANTI_LOCAL : VC_ANTI_REMOTE);
			t->cur.anti++;
			/* A locally sent message whose PROCESSED flag was clear may already have been annihilated and released by its receiver:
			 * the monitor must not touch it (the core does not either). It is identified by its address in the sender's history. */
			int owned = point == VH_ANTI_REMOTE || (a & MSG_FLAG_PROCESSED);
			if(owned) {
				uint32_t st = atomic_fetch_or_explicit(&m->verif_st, ST_ANTI_SEEN, memory_order_relaxed);
				if(st & ST_ANTI_SEEN)
					vh_violation("C06", "send-cancelled-twice", "message id %llu cancelled twice", (unsigned long long)m->verif_id);
			}
			if(point == VH_ANTI_LOCAL) {
				if(a & MSG_FLAG_ANTI)
					vh_violation("C06", "send-cancelled-twice", "message %p already carried the cancellation flag", (void *)m);
				CNT((a & MSG_FLAG_PROCESSED) ? VC_CANCEL_AFTER_PROCESS : VC_CANCEL_BEFORE_PROCESS);
			}
			uintptr_t want = (uintptr_t)m | (point == VH_ANTI_LOCAL ? 1 : 2);
			int found = 0;
			for(unsigned i = lm->n; i-- > 0;) {
				if(lm->h[i].tagged == want) {
					found = 1;
					if(i < lm->rb_past || !lm->in_rb)
						vh_violation("C06", "valid-send-cancelled", "LP %llu cancelled message id %llu sent by an execution that stays valid (entry %u, rollback target %u)", (unsigned long long)(current_lp - lps), (unsigned long long)lm->h[i].id, i, lm->rb_past);
					if(lm->h[i].handled++)
						vh_violation("C06", "send-cancelled-twice", "history entry %u of LP %llu cancelled twice", i, (unsigned long long)(current_lp - lps));
					break;
				}
			}
			if(!found)
				vh_violation("C06", "cancelled-message-not-in-history", "LP %llu cancelled message %p which is not among the sends of its undone events", (unsigned long long)(current_lp - lps), (void *)m);
			failpoint(vh_cfg.fp_level >= 3 ? 30 : vh_cfg.fp_level == 2 ? 300 : 0, 3);
			return;
		}
		case VH_UNDO: {
			struct lp_msg *m = (struct lp_msg *)p;
			struct lpmon *lm = LM(current_lp);
			CNT(VC_UNDONE);
			t->cur.undone++;
			lm->undone++;
			/* legal previous values: PROCESSED, PROCESSED|ANTI, and ANTI+2*PROCESSED (=5, the anti-message of a processed event is being
			 * handled: PROCESSED was added a second time on re-extraction); remote copies carry id bits >= 4 */
			if(!(a & MSG_FLAG_PROCESSED) && a < 4)
				vh_violation("C06", "undo-of-unprocessed-event", "message id %llu undone but PROCESSED was not set (flags before: %llx)", (unsigned long long)m->verif_id, (unsigned long long)a);
			CNT((a & MSG_FLAG_ANTI) ? VC_UNDO_WHILE_CANCELLED : VC_UNDO_REQUEUE);
			atomic_fetch_and_explicit(&m->verif_st, ~(uint32_t)ST_IN_HIST, memory_order_relaxed);
			if(m->dest_t < t->last_gvt)
				vh_violation("C04", "rollback-below-gvt", "thread %u undid event id %llu {t=%a} after having been told GVT %a", rid, (unsigned long long)m->verif_id, m->dest_t, t->last_gvt);
			int found = 0;
			for(unsigned i = lm->n; i-- > 0;) {
				if(lm->h[i].id == m->verif_id && !lm->h[i].kind) {
					found = 1;
					if(i < lm->rb_past || !lm->in_rb)
						vh_violation("C05", "valid-event-undone", "LP %llu undid entry %u below the rollback target %u", (unsigned long long)(current_lp - lps), i, lm->rb_past);
					if(lm->h[i].handled++)
						vh_violation("C05", "event-undone-twice", "entry %u of LP %llu undone twice", i, (unsigned long long)(current_lp - lps));
					break;
				}
			}
			if(!found)
				vh_violation("C05", "undone-event-not-in-history", "LP %llu undid message id %llu which is not in its history", (unsigned long long)(current_lp - lps), (unsigned long long)m->verif_id);
			failpoint(vh_cfg.fp_level >= 3 ? 30 : vh_cfg.fp_level == 2 ? 300 : 0, 3);
			return;
		}
		case VH_SILENT_BEGIN:
			t->in_silent = 1;
			return;
		case VH_SILENT: {
			CNT(VC_SILENT);
			t->cur.silent++;
			return;
		}
		case VH_SILENT_END:
			t->in_silent = 0;
			return;
		case VH_RB_END: {
			struct lp_ctx *lp = (struct lp_ctx *)p;
			struct lpmon *lm = LM(lp);
			unsigned past = (unsigned)a, ref = (unsigned)b;
			PROGRESS();
			if(t->in_silent)
				vh_violation("C05", "silent-mode-left-on", "rollback of LP %llu finished with silent mode still on", (unsigned long long)(lp - lps));
			for(unsigned i = past; i < lm->n; ++i)
				if(lm->h[i].handled != 1) {
					vh_violation(lm->h[i].kind ? "C06" : "C05", lm->h[i].kind ? "undone-send-not-cancelled" : "undone-event-not-unprocessed",
					    "LP %llu rollback to %u: history entry %u (%s, message id %llu) of the undone part was handled %u times",
					    (unsigned long long)(lp - lps), past, i, lm->h[i].kind ? "sent message" : "event", (unsigned long long)lm->h[i].id, lm->h[i].handled);
					break;
				}
			unsigned depth = 0;
			for(unsigned i = past; i < lm->n; ++i)
				depth += !lm->h[i].kind;
			if(depth > t->c[VC_DEPTH_MAX])
				t->c[VC_DEPTH_MAX] = depth;
			lm->n = past < lm->n ? past : lm->n;
			lm->in_rb = 0;
			/* C13: a rollback that restores the oldest checkpoint fossil collection kept works on exactly what the collection left behind
			 * (first kept checkpoint, re-based positions, start of the shortened history): anything wrong with it is also C13's business */
			const int c13 = lm->fossils && ref == (lm->n_ck ? lm->ck[0] : 0);
#define C13_ALSO(what) do { if(c13) vh_violation("C13", "rollback-into-oldest-kept-interval-wrong", "LP %llu: rollback to position %u of the history shortened by %u fossil collection(s), restoring the oldest kept checkpoint (reference %u): %s", (unsigned long long)(lp - lps), past, lm->fossils, ref, what); } while(0)
			if(array_count(lp->p.p_msgs) != past)
				vh_violation("C05", "history-not-truncated-to-target", "LP %llu rollback to %u left %u history entries", (unsigned long long)(lp - lps), past, (unsigned)array_count(lp->p.p_msgs));
			/* checkpoint bookkeeping (shadow of the allocator's log list) */
			int okck = 0;
			for(unsigned k = 0; k < lm->n_ck; ++k)
				okck |= lm->ck[k] == ref;
			if(!okck || ref > past)
				vh_violation("C05", "restored-checkpoint-not-valid", "LP %llu rollback to %u restored a checkpoint with reference %u (%s)", (unsigned long long)(lp - lps), past, ref, ref > past ? "after the target" : "unknown to the monitor");
			while(lm->n_ck && lm->ck[lm->n_ck - 1] > past)
				lm->n_ck--;
			unsigned coast = 0;
			for(unsigned i = ref; i < past && i < lm->n; ++i)
				coast += !lm->h[i].kind;
			CNT(coast == 0 ? VC_RB_COAST0 : coast == 1 ? VC_RB_COAST1 : VC_RB_COAST_MANY);
			if(coast > t->c[VC_COAST_MAX])
				t->c[VC_COAST_MAX] = coast;
			if(lm->fossil_just)
				CNT(VC_RB_AFTER_FOSSIL);
			if(past == 0)
				CNT(VC_RB_TO_ZERO);
			lm->sig = lm->sig * 1099511628211ULL + (past * 31 + depth * 7 + coast);
			/* exact state: compare with the state that existed when the history had this length */
			uint64_t want_m, want_a;
			int valid;
			if(past == 0) {
				want_m = lm->base_mdigest;
				want_a = lm->base_abytes;
				valid = lm->base_valid;
			} else {
				struct shent *e = &lm->h[past - 1];
				if(e->kind) {
					vh_violation("C05", "rollback-target-splits-an-event", "LP %llu rollback target %u is not right after an event", (unsigned long long)(lp - lps), past);
					C13_ALSO("the target is not right after an event (the event in front of it stays executed, its sends uncancelled)");
					/* the entry right below the target is a message sent by an event that lies in the undone part: it was not cancelled */
					vh_violation("C06", "undone-send-not-cancelled", "LP %llu rollback to %u: history entry %u is a message (id %llu) sent by an event of the undone part, and it stays uncancelled",
					    (unsigned long long)(lp - lps), past, past - 1, (unsigned long long)e->id);
					return;
				}
				want_m = e->mdigest;
				want_a = e->abytes;
				valid = e->digest_valid;
			}
			if(valid && vh_cfg.state_digest) {
				uint64_t got_a = allocated_bytes(lp);
				uint64_t got_m = vh_cfg.state_digest(lp);
				CNT(VC_RB_DIGEST_CHECKED);
				if(got_m != want_m || got_a != want_a)
					C13_ALSO("the state differs from the one that existed at that position");
				if(got_m != want_m)
					vh_violation("C05", "state-after-rollback-differs", "LP %llu: after rollback to history length %u (checkpoint %u + %u re-executed events) the state content differs from the one that existed at that point",
					    (unsigned long long)(lp - lps), past, ref, coast);
				else if(got_a != want_a)
					vh_violation("C05", "live-blocks-after-rollback-differ", "LP %llu: after rollback to %u the allocator holds %llu bytes, %llu at the original time", (unsigned long long)(lp - lps), past,
					    (unsigned long long)got_a, (unsigned long long)want_a);
			} else {
				CNT(VC_RB_DIGEST_SKIPPED);
			}
			return;
		}
		case VH_CKPT: {
			struct lp_ctx *lp = (struct lp_ctx *)p;
			struct lpmon *lm = LM(lp);
			CNT(VC_CKPT);
			t->cur.ckpt++;
			if(lm->n_ck == lm->cap_ck) {
				lm->cap_ck = lm->cap_ck ? lm->cap_ck * 2 : 16;
				lm->ck = realloc(lm->ck, lm->cap_ck * sizeof(*lm->ck));
			}
			lm->ck[lm->n_ck++] = (unsigned)a;
			return;
		}
		case VH_MM_RESTORE:
			if(b > a)
				vh_violation("C05", "restore-picked-later-checkpoint", "restore for target %llu picked the checkpoint with reference %llu", (unsigned long long)a, (unsigned long long)b);
			return;
		case VH_MM_FOSSIL:
			if(b > a)
				vh_violation("C13", "fossil-kept-later-checkpoint", "fossil collection for target %llu kept the checkpoint with reference %llu", (unsigned long long)a, (unsigned long long)b);
			return;
		/* ---------- fossil collection ---------- */
		case VH_FOSSIL_BEGIN:
			memcpy(&t->fossil_gvt, &a, 8);
			return;
		case VH_FOSSIL_ENTRY: {
			uintptr_t tg = (uintptr_t)p;
			unsigned k = (unsigned)a;
			CNT(VC_FOSSIL_ENTRIES);
			if(k >= t->ft_cap) {
				unsigned nc = t->ft_cap ? t->ft_cap : 256;
				while(k >= nc)
					nc *= 2;
				t->ft = realloc(t->ft, nc * sizeof(*t->ft));
				t->ft_cap = nc;
			}
			t->ft[k].is_evt = 0;
			if(tg & 1)
				return; /* locally sent: owned by the receiver */
			struct lp_msg *m = (struct lp_msg *)(tg & ~(uintptr_t)3);
			atomic_fetch_or_explicit(&m->verif_st, ST_RELEASE_OK, memory_order_relaxed);
			if(tg & 2)
				return;
			atomic_fetch_and_explicit(&m->verif_st, ~(uint32_t)ST_IN_HIST, memory_order_relaxed);
			t->ft[k] = (struct ftmp){.ts = m->dest_t, .type = m->m_type, .size = m->pl_size, .plh = vh_cfg.payload_hash ? vh_cfg.payload_hash(m->pl, m->pl_size) : 0, .is_evt = 1};
			if(m->dest_t >= t->fossil_gvt)
			{
				unsigned long long lpid = (unsigned long long)((struct lp_ctx *)(uintptr_t)b - lps);
				vh_violation("C04", "history-at-or-above-gvt-reclaimed", "LP %llu: event id %llu {t=%a} reclaimed at GVT %a", lpid, (unsigned long long)m->verif_id, m->dest_t, t->fossil_gvt);
				/* the same observation refutes C13: a rollback to a point at (not below) the GVT is still legal and now impossible */
				vh_violation("C13", "history-a-legal-rollback-can-need-reclaimed", "LP %llu: event id %llu {t=%a} and the checkpoints before it reclaimed at GVT %a: a rollback to that event (timestamp not below the GVT) is still legal", lpid, (unsigned long long)m->verif_id, m->dest_t, t->fossil_gvt);
			}
			return;
		}
		case VH_FOSSIL_END: {
			struct lp_ctx *lp = (struct lp_ctx *)p;
			struct lpmon *lm = LM(lp);
			unsigned n = (unsigned)a;
			CNT(VC_FOSSIL);
			owner_check(lp, "fossil-collected");
			if(n > lm->n) {
				vh_violation("C13", "fossil-truncates-more-than-history", "LP %llu: %u entries truncated, %u known", (unsigned long long)(lp - lps), n, lm->n);
				n = lm->n;
			}
			/* the cut must be at a checkpoint, and at or below the committed frontier */
			int at_ck = 0;
			for(unsigned k = 0; k < lm->n_ck; ++k)
				at_ck |= lm->ck[k] == n;
			if(n && !at_ck)
				vh_violation("C13", "kept-history-does-not-start-at-a-checkpoint", "LP %llu: history truncated by %u entries, no checkpoint has that reference", (unsigned long long)(lp - lps), n);
			/* committed events, ascending */
			for(unsigned k = 0; k < n; ++k) {
				if(lm->h[k].kind)
					continue;
				if(k < t->ft_cap && t->ft[k].is_evt)
					commit_event((uint64_t)(lp - lps), lm, &t->ft[k], &lm->h[k], "fossil collection");
			}
			if(n) {
				/* new base state = state after the last dropped event */
				for(unsigned k = n; k-- > 0;)
					if(!lm->h[k].kind) {
						lm->base_mdigest = lm->h[k].mdigest;
						lm->base_abytes = lm->h[k].abytes;
						lm->base_valid = lm->h[k].digest_valid;
						break;
					}
				memmove(lm->h, lm->h + n, (lm->n - n) * sizeof(*lm->h));
				lm->n -= n;
				unsigned w = 0;
				for(unsigned k = 0; k < lm->n_ck; ++k)
					if(lm->ck[k] >= n)
						lm->ck[w++] = lm->ck[k] - n;
				lm->n_ck = w;
				lm->fossil_just = 1;
				lm->fossils++;
			}
			if(array_count(lp->p.p_msgs) != lm->n)
				vh_violation("C13", "history-shadow-mismatch-after-fossil", "LP %llu: history has %u entries after fossil collection, monitor expects %u", (unsigned long long)(lp - lps), (unsigned)array_count(lp->p.p_msgs), lm->n);
			return;
		}
		/* ---------- GVT ---------- */
		case VH_GVT_VALUE: {
			double g;
			memcpy(&g, &a, 8);
			CNT(VC_GVT_ROUNDS);
			PROGRESS();
			if(g < t->last_gvt)
				vh_violation("C04", "gvt-decreased", "thread %u was told GVT %a after %a", rid, g, t->last_gvt);
			if(t->red_csteps == 2 && t->red_min_ts < g)
				vh_violation("C04", "gvt-above-message-in-hand-during-reduction", "thread %u was told GVT %a, but while that reduction was being computed (after it joined, before its final snapshot) it had extracted message id %llu {t=%a,flags=%x}: the value is not a lower bound of what existed when it was computed",
				    rid, g, (unsigned long long)t->red_min_id, t->red_min_ts, t->red_min_flags);
			t->red_open = 0;
			t->red_csteps = 0;
			t->red_min_ts = SIMTIME_MAX;
			CNT(VC_INSERT_BETWEEN_PEEKS);
			t->last_gvt = g;
			if(!b)
				t->last_loop_gvt = g;
			if(t->n_gvts == t->cap_gvts) {
				t->cap_gvts = t->cap_gvts ? t->cap_gvts * 2 : 64;
				t->gvts = realloc(t->gvts, t->cap_gvts * sizeof(*t->gvts));
			}
			t->gvts[t->n_gvts++] = g;
			/* close the statistics window (C20) */
			if(t->n_wins == t->cap_wins) {
				t->cap_wins = t->cap_wins ? t->cap_wins * 2 : 64;
				t->wins = realloc(t->wins, t->cap_wins * sizeof(*t->wins));
			}
			t->cur.gvt = g;
			return;
		}
		case VH_GVT_CONSUMED: {
			/* stats_on_gvt() has run: everything counted so far belongs to the record just written */
			t->wins[t->n_wins++] = t->cur;
			memset(&t->cur, 0, sizeof(t->cur));
			failpoint(vh_cfg.fp_level >= 2 ? 4 : 0, 7);
			return;
		}
		/* ---------- shutdown ---------- */
		case VH_LP_FINI: {
			struct lp_ctx *lp = (struct lp_ctx *)p;
			struct lpmon *lm = LM(lp);
			if(lm->fini_done++)
				vh_violation("C08", "lp-finalised-twice", "LP %llu finalised twice", (unsigned long long)(lp - lps));
			owner_check(lp, "finalised");
			PROGRESS();
			return;
		}
		case VH_FINI_HIST: {
			uintptr_t tg = (uintptr_t)p;
			struct lp_ctx *lp = (struct lp_ctx *)(uintptr_t)b;
			struct lpmon *lm = LM(lp);
			if(tg & 1)
				return;
			struct lp_msg *m = (struct lp_msg *)(tg & ~(uintptr_t)3);
			atomic_fetch_or_explicit(&m->verif_st, ST_RELEASE_OK, memory_order_relaxed);
			if(tg & 2)
				return;
			atomic_fetch_and_explicit(&m->verif_st, ~(uint32_t)ST_IN_HIST, memory_order_relaxed);
			/* still held at shutdown with timestamp below the last GVT: committed */
			if(m->dest_t < t->last_loop_gvt && !(m->raw_flags & MSG_FLAG_ANTI)) {
				struct ftmp f = {.ts = m->dest_t, .type = m->m_type, .size = m->pl_size, .plh = vh_cfg.payload_hash ? vh_cfg.payload_hash(m->pl, m->pl_size) : 0, .is_evt = 1};
				CNT(VC_FINI_COMMITTED);
				commit_event((uint64_t)(lp - lps), lm, &f, NULL, "held at shutdown below the last GVT");
			}
			return;
		}
		case VH_Q_FINI_HEAP:
		case VH_Q_FINI_LIST: {
			struct lp_msg *m = (struct lp_msg *)p;
			CNT(VC_QUEUE_LEFT);
			atomic_fetch_sub_explicit(&queued_msgs, 1, memory_order_relaxed);
			uint32_t q = atomic_fetch_sub_explicit(&m->verif_q, 1, memory_order_relaxed);
			if(q != 1)
				vh_violation("C06", "queue-leftover-not-queued-once", "message id %llu found in a queue at shutdown with queue count %u", (unsigned long long)m->verif_id, q);
			atomic_fetch_or_explicit(&m->verif_st, ST_RELEASE_OK, memory_order_relaxed);
			if(m->dest_t < t->last_gvt)
				vh_violation("C04", "message-below-gvt-still-queued", "thread %u: message id %llu {t=%a,flags=%x} still queued at shutdown although GVT %a was reported", rid, (unsigned long long)m->verif_id, m->dest_t, m->raw_flags, t->last_gvt);
			return;
		}
		case VH_MPI_RECV: {
			struct lp_msg *m = (struct lp_msg *)p;
			atomic_fetch_or_explicit(&m->verif_st, ST_REMOTE_COPY, memory_order_relaxed);
			if(m->dest_t < t->last_gvt)
				vh_violation("C04", "remote-message-below-gvt-received", "thread %u received remote %s {t=%a} after having been told GVT %a", rid, a ? "anti-message" : "message", m->dest_t, t->last_gvt);
			failpoint(vh_cfg.fp_level >= 2 ? 6 : 0, 7);
			return;
		}
		case VH_MPI_SEND: {
			const struct lp_msg *m = (const struct lp_msg *)p;
			if(vh_cfg.monitors && ((m->dest >= lid_node_first && m->dest < lid_node_first + n_lps_node) || (nid_t)b != lid_to_nid(m->dest)))
				vh_violation("C14", "mpi-send-to-wrong-node", "node %d sends the %s for LP %llu to node %llu, its owner is node %d", (int)nid, a ? "anti-message" : "event", (unsigned long long)m->dest, (unsigned long long)b, (int)lid_to_nid(m->dest));
			failpoint(vh_cfg.fp_level >= 2 ? 10 : 0, 7);
			return;
		}
		default:
			return;
	}
}

/* ---------------- accessors / post-run ---------------- */
unsigned long long vh_counter_total(enum vh_counter c)
{
	unsigned long long s = 0;
	for(unsigned i = 0; i < VH_MAXTHR; ++i) {
		if(c == VC_DEPTH_MAX || c == VC_COAST_MAX)
			s = thr[i].c[c] > s ? thr[i].c[c] : s;
		else
			s += thr[i].c[c];
	}
	return s;
}
unsigned vh_thread_windows(unsigned th, const struct vh_window **w)
{
	*w = thr[th].wins;
	return thr[th].n_wins;
}
struct vh_window vh_thread_open_window(unsigned th) { return thr[th].cur; }
double vh_thread_last_gvt(unsigned th) { return thr[th].last_gvt; }
int vh_thread_seen(unsigned th) { return thr[th].seen; }
unsigned vh_threads_seen(void)
{
	unsigned n = 0;
	for(unsigned i = 0; i < VH_MAXTHR; ++i)
		n += thr[i].seen;
	return n;
}
uint64_t vh_lp_committed(uint64_t lp) { return lpm[lp].committed; }
int vh_lp_owner(uint64_t lp) { return lpm[lp].owner - 1; }
unsigned vh_lp_undone(uint64_t lp) { return lpm[lp].undone; }
uint64_t vh_schedule_signature(void)
{
	uint64_t s = 0;
	for(unsigned i = 0; i < VH_MAXLP; ++i)
		if(lpm[i].sig)
			s = s * 0x100000001b3ULL ^ (lpm[i].sig + i);
	return s;
}
unsigned long long vh_progress(void)
{
	unsigned long long s = 0;
	for(unsigned i = 0; i < VH_MAXTHR; ++i)
		s += atomic_load_explicit(&thr[i].progress, memory_order_relaxed);
	return s;
}

static const char *stage_name(int s)
{
	switch(s) {
		case VS_THREAD_START: return "init";
		case VS_INIT_DONE: return "init-done";
		case VS_LOOP: return "loop";
		case VS_LOOP_EXIT: return "drain";
		case VS_DRAIN_DONE: return "post-drain";
		case VS_LP_FINI_DONE: return "lp-fini-done";
		case VS_QUEUE_FINI_DONE: return "queue-fini-done";
		case VS_THREAD_DONE: return "done";
		default: return "not-started";
	}
}
static const char *drain_name(int d)
{
	switch(d) {
		case 1: return "flush-partial-round";
		case 2: return "barriers";
		case 3: return "flush-round-1";
		case 4: return "flush-round-2";
		case 5: return "drained";
		default: return "-";
	}
}

void vh_describe_threads(char *buf, size_t n, char *sig, size_t nsig)
{
	size_t o = 0;
	/* signature = sorted multiset of (stage, drain sub-stage, in-barrier) */
	char items[VH_MAXTHR][64];
	unsigned ni = 0;
	for(unsigned i = 0; i < VH_MAXTHR; ++i) {
		if(!thr[i].seen)
			continue;
		int st = atomic_load(&thr[i].stage), dr = atomic_load(&thr[i].drain_stage), ib = atomic_load(&thr[i].in_barrier);
		int tp = atomic_load(&thr[i].gvt_tphase), np = atomic_load(&thr[i].gvt_nphase);
		o += (size_t)snprintf(buf + o, o < n ? n - o : 0, "t%u:%s/%s%s/gvt-thread-phase=%d/node-phase=%d ", i, stage_name(st), st == VS_LOOP_EXIT ? drain_name(dr) : "-", ib ? "/in-barrier" : "", tp, np);
		snprintf(items[ni++], 64, "%s%s%s%s", stage_name(st), st == VS_LOOP_EXIT ? ":" : "", st == VS_LOOP_EXIT ? drain_name(dr) : "", ib ? ":barrier" : "");
		if(o >= n)
			break;
	}
	/* sort + unique */
	for(unsigned i = 0; i < ni; ++i)
		for(unsigned j = i + 1; j < ni; ++j)
			if(strcmp(items[j], items[i]) < 0) {
				char tmp[64];
				memcpy(tmp, items[i], 64);
				memcpy(items[i], items[j], 64);
				memcpy(items[j], tmp, 64);
			}
	size_t so = 0;
	for(unsigned i = 0; i < ni; ++i)
		if(i == 0 || strcmp(items[i], items[i - 1]))
			so += (size_t)snprintf(sig + so, so < nsig ? nsig - so : 0, "%s%s", so ? "+" : "", items[i]);
}

void vh_post_run_checks(void)
{
	/* C04: the GVT values are the same for all threads in a given round. A thread that does not consume some round's value is not a
	 * violation, so sequences are compared as subsequences of the longest one (values never decrease, so matching is greedy). */
	unsigned longest = VH_MAXTHR;
	for(unsigned i = 0; i < VH_MAXTHR; ++i)
		if(thr[i].seen && (longest == VH_MAXTHR || thr[i].n_gvts > thr[longest].n_gvts))
			longest = i;
	for(unsigned i = 0; i < VH_MAXTHR && longest != VH_MAXTHR; ++i) {
		if(!thr[i].seen || i == longest)
			continue;
		unsigned k = 0;
		for(unsigned j = 0; j < thr[i].n_gvts; ++j) {
			while(k < thr[longest].n_gvts && thr[longest].gvts[k] != thr[i].gvts[j])
				k++;
			if(k == thr[longest].n_gvts) {
				vh_violation("C04", "gvt-differs-between-threads", "thread %u was told GVT %a (its value #%u), thread %u was never told that value", i, thr[i].gvts[j], j, longest);
				break;
			}
			k++;
		}
	}
	/* C06 / C15: every message inserted in a queue was extracted or found in that queue at shutdown (nothing lost in a hand-over).
	 * Whether buffers are handed back to the allocator at shutdown is a policy, not part of the property: reported as a counter only. */
	if(vh_cfg.monitors) {
		long long q = atomic_load(&queued_msgs);
		if(q != 0)
			vh_violation("C06", "messages-lost-in-queues", "%lld messages were inserted in a queue and neither extracted nor found there at shutdown", q);
	}
}
long long vh_unreleased_messages(void) { return atomic_load(&live_msgs); }

void vh_reset(void)
{
	for(unsigned i = 0; i < VH_MAXLP; ++i) {
		free(lpm[i].h);
		free(lpm[i].ck);
		free(lpm[i].early);
	}
	memset(lpm, 0, sizeof(lpm));
	for(unsigned i = 0; i < VH_MAXTHR; ++i) {
		free(thr[i].gvts);
		free(thr[i].wins);
		free(thr[i].ft);
	}
	memset(thr, 0, sizeof(thr));
	atomic_store(&live_msgs, 0);
	atomic_store(&queued_msgs, 0);
}
