#!/usr/bin/env python3
"""Generates MANIFEST.json from the table below (kept in one place so it stays valid)."""
import json, os, sys
HERE = os.path.dirname(os.path.abspath(__file__))
sys.path.insert(0, HERE)
from manifest_table import CHECKS, NOT_APPLICABLE, ENGINES, HOOK_COMMITS

props = [json.loads(l)["id"] for l in open(os.path.join(HERE, "properties.jsonl"))]
checks = []
for pid in props:
    if pid not in CHECKS:
        continue
    c = CHECKS[pid]
    checks.append({
        "property_id": pid,
        "quick_cmd": "./check %s --tier quick" % pid,
        "thorough_cmd": "./check %s --tier thorough" % pid,
        "evidence_file": "/verif/evidence/%s.json" % pid,
        "replay_cmd_template": "./check %s --replay {path}" % pid,
        "engine": c["engine"],
        "level_claimed": {"category": c.get("category", "exploration"), "text": c["text"], "design_ref": c["design_ref"]},
        "level_note": c["note"],
        "technique": c["technique"],
    })
na = [{"property_id": p, "reason": NOT_APPLICABLE.get(p, "check not built yet in this round (work in progress); not claimed")}
      for p in props if p not in CHECKS]
m = {
    "version": 1,
    "setup_cmd": "./setup.sh",
    "hooks": {
        "guard": "ROOT_SIM_CORE_VERIF",
        "enable": "every check compiles /repo/src itself with -DROOT_SIM_CORE_VERIF (lib/vlib.py: build_core), flavours asan / asan-ndebug / tsan / plain, transports no_mpi.c and mpi.c",
        "baseline_off_cmd": "cmake -G Ninja -S /repo -B /repo/_build -DCMAKE_BUILD_TYPE=RelWithDebInfo >/dev/null && cmake --build /repo/_build >/dev/null && ctest --test-dir /repo/_build -j8 --timeout 900",
        "source_commits": HOOK_COMMITS,
        "add_only": True,
    },
    "engines": ENGINES,
    "checks": checks,
    "not_applicable": na,
    "notes": "Runtime monitoring and sanitizers only. Exit codes: 0 held on everything explored, 1 VIOLATION, 2 inconclusive/harness failure. Known findings: known_findings.json.",
}
json.dump(m, open(os.path.join(HERE, "MANIFEST.json"), "w"), indent=1)
print("checks:", len(checks), "not_applicable:", len(na))
