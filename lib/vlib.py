"""Shared machinery for the /verif checks: builds from the repo's working tree,
a bounded process pool, evidence writer, known-findings matcher, verdict logic.

Exit codes of a check: 0 held on everything explored (known findings printed),
1 violation (VIOLATION line + replay file), 2 inconclusive / harness failure.
"""
import hashlib
import json
import os
import re
import shutil
import subprocess
import sys
import time
from concurrent.futures import ThreadPoolExecutor

VERIF = os.path.dirname(os.path.dirname(os.path.abspath(__file__)))
REPO = os.environ.get("REPO", "/repo")
BUILD = os.path.join(VERIF, "build")
NCPU = os.cpu_count() or 16
GUARD = "ROOT_SIM_CORE_VERIF"

FLAVOURS = {
    # assertions on (README build), ASan+UBSan fatal
    "asan": ["-O1", "-g", "-fno-omit-frame-pointer", "-fsanitize=address,undefined",
             "-fno-sanitize-recover=all"],
    # the suite's configuration (NDEBUG: other lp_msg layout, no debug aborts)
    "asan-ndebug": ["-O2", "-g", "-DNDEBUG", "-fno-omit-frame-pointer",
                    "-fsanitize=address,undefined", "-fno-sanitize-recover=all"],
    "tsan": ["-O1", "-g", "-fsanitize=thread"],
    "plain": ["-O2", "-g"],
    "plain-ndebug": ["-O2", "-g", "-DNDEBUG"],
}

SAN_ENV = {
    "ASAN_OPTIONS": "abort_on_error=1:detect_leaks=0:halt_on_error=1:allocator_may_return_null=1:detect_stack_use_after_return=0",
    "UBSAN_OPTIONS": "print_stacktrace=1:halt_on_error=1:abort_on_error=1",
    "TSAN_OPTIONS": "halt_on_error=1:second_deadlock_stack=1",
}


def seed_from_env(default=1):
    try:
        return int(os.environ.get("VERIF_SEED", default))
    except ValueError:
        return default


def tier_from(argv_tier):
    t = argv_tier or os.environ.get("VERIF_TIER") or "quick"
    return "thorough" if t.startswith("t") else "quick"


# ----------------------------------------------------------------------------
# builds
# ----------------------------------------------------------------------------

def core_sources(transport):
    """Source list is read from the repo's own CMake file so added/removed files follow."""
    txt = open(os.path.join(REPO, "src", "CMakeLists.txt")).read()
    m = re.search(r"set\(rscore_srcs\s+(.*?)\)", txt, re.S)
    srcs = m.group(1).split()
    srcs.append("distributed/mpi.c" if transport == "mpi" else "distributed/no_mpi.c")
    return srcs


def _tree_hash():
    h = hashlib.sha256()
    root = os.path.join(REPO, "src")
    for d, dn, fn in sorted(os.walk(root)):
        dn.sort()
        for f in sorted(fn):
            if f.endswith((".c", ".h", ".txt")):
                p = os.path.join(d, f)
                h.update(p.encode())
                with open(p, "rb") as fh:
                    h.update(fh.read())
    for d, dn, fn in sorted(os.walk(os.path.join(VERIF, "hooks"))):
        for f in sorted(fn):
            with open(os.path.join(d, f), "rb") as fh:
                h.update(fh.read())
    return h.hexdigest()[:16]


def cc_for(transport):
    return "mpicc" if transport == "mpi" else "gcc"


def base_flags(flavour, extra=()):
    return (["-std=gnu11", "-D_GNU_SOURCE", "-DROOTSIM_VERSION=\"verif\"", "-D" + GUARD,
             "-I" + os.path.join(REPO, "src"), "-I" + os.path.join(VERIF, "hooks"),
             "-I" + os.path.join(VERIF, "model"), "-I" + os.path.join(VERIF, "engines"),
             "-Wno-unused-result"] + FLAVOURS[flavour] + list(extra))


def _run_cc(cmd):
    p = subprocess.run(cmd, stdout=subprocess.PIPE, stderr=subprocess.STDOUT, text=True)
    return p.returncode, p.stdout, cmd


class BuildError(Exception):
    pass


def build_core(flavour="asan", transport="nompi", extra=()):
    """Compile every core source of the repo's *current* working tree with the hook guard on.
    Objects are cached under a key derived from the content of every file below src/ and
    hooks/ plus the flags, so a stale object can never be linked."""
    key = hashlib.sha256((_tree_hash() + flavour + transport + " ".join(extra) + REPO).encode()).hexdigest()[:20]
    odir = os.path.join(BUILD, "core-" + key)
    stamp = os.path.join(odir, "OK")
    srcs = core_sources(transport)
    objs = [os.path.join(odir, s.replace("/", "_")[:-2] + ".o") for s in srcs]
    if os.path.exists(stamp):
        _touch(odir)
        return objs
    if os.path.isdir(odir):
        shutil.rmtree(odir, ignore_errors=True)
    os.makedirs(odir, exist_ok=True)
    _gc_builds()
    cc = cc_for(transport)
    fl = base_flags(flavour, extra)
    cmds = [[cc] + fl + ["-c", os.path.join(REPO, "src", s), "-o", o] for s, o in zip(srcs, objs)]
    with ThreadPoolExecutor(NCPU) as ex:
        res = list(ex.map(_run_cc, cmds))
    bad = [r for r in res if r[0] != 0]
    if bad:
        raise BuildError("core build failed:\n" + "\n".join(" ".join(b[2]) + "\n" + b[1] for b in bad[:3]))
    open(stamp, "w").write("ok")
    return objs


def _touch(d):
    """A cache hit counts as use: the collector below goes by modification time and must not take a build a running check relies on."""
    try:
        os.utime(d, None)
    except OSError:
        pass


def _gc_builds(keep=80, min_age_s=3 * 3600):
    """Keep the build cache bounded (disk is limited) without touching anything a concurrent check may still be running."""
    try:
        now = time.time()
        ds = [os.path.join(BUILD, d) for d in os.listdir(BUILD) if d.startswith(("core-", "bin-"))]
        ds = [d for d in ds if os.path.isdir(d)]
        ds.sort(key=lambda d: os.path.getmtime(d))
        for d in ds[:-keep]:
            if now - os.path.getmtime(d) > min_age_s:
                shutil.rmtree(d, ignore_errors=True)
    except OSError:
        pass


def build_engine(name, sources, flavour="asan", transport="nompi", extra=(), link_core=True, libs=()):
    """Build /verif/build/bin-<key>/<name> from harness sources (+ the core objects)."""
    t0 = time.time()
    objs = build_core(flavour, transport, extra) if link_core else []
    h = hashlib.sha256()
    h.update(_tree_hash().encode())
    for s in sources:
        with open(s, "rb") as fh:
            h.update(fh.read())
    for d in ("model", "engines", "hooks"):
        for f in sorted(os.listdir(os.path.join(VERIF, d))):
            p = os.path.join(VERIF, d, f)
            if os.path.isfile(p) and f.endswith(".h"):
                with open(p, "rb") as fh:
                    h.update(fh.read())
    h.update((name + flavour + transport + " ".join(extra) + str(link_core) + REPO + " ".join(libs)).encode())
    bdir = os.path.join(BUILD, "bin-" + h.hexdigest()[:20])
    exe = os.path.join(bdir, name)
    if os.path.exists(exe + ".OK"):
        _touch(bdir)
        return exe
    shutil.rmtree(bdir, ignore_errors=True)
    os.makedirs(bdir, exist_ok=True)
    cc = cc_for(transport)
    fl = base_flags(flavour, extra)
    eobjs = []
    cmds = []
    for s in sources:
        o = os.path.join(bdir, os.path.basename(s)[:-2] + ".o")
        eobjs.append(o)
        cmds.append([cc] + fl + ["-c", s, "-o", o])
    with ThreadPoolExecutor(NCPU) as ex:
        res = list(ex.map(_run_cc, cmds))
    bad = [r for r in res if r[0] != 0]
    if bad:
        raise BuildError("engine build failed:\n" + "\n".join(" ".join(b[2]) + "\n" + b[1] for b in bad[:3]))
    rc, out, cmd = _run_cc([cc] + FLAVOURS[flavour] + eobjs + objs + ["-o", exe, "-lm", "-lpthread", "-ldl"] + list(libs))
    if rc != 0:
        raise BuildError("link failed:\n" + " ".join(cmd) + "\n" + out)
    open(exe + ".OK", "w").write("%.2f" % (time.time() - t0))
    return exe


# ----------------------------------------------------------------------------
# running cases
# ----------------------------------------------------------------------------

class CaseResult:
    __slots__ = ("cmd", "rc", "out", "err", "timed_out", "wall", "tag")

    def __init__(self, cmd, rc, out, err, timed_out, wall, tag):
        self.cmd, self.rc, self.out, self.err = cmd, rc, out, err
        self.timed_out, self.wall, self.tag = timed_out, wall, tag


def run_case(cmd, timeout=120, env=None, tag=None, stdin=None):
    e = dict(os.environ)
    e.update(SAN_ENV)
    if env:
        e.update(env)
    fill = e.pop("VERIF_MALLOC_FILL", None)
    if fill:   # hostile pattern in fresh heap memory (ASan fills with 0xbe by default, whose low bit is clear): a field the code forgets to set reads as all-ones
        e["ASAN_OPTIONS"] += ":malloc_fill_byte=%s:max_malloc_fill_size=1048576" % fill
    e["VERIF_BACKSTOP"] = str(int(timeout) + 20)   # engines arm alarm() with it: no orphan outlives its driver
    t0 = time.time()
    try:
        p = subprocess.Popen(cmd, stdout=subprocess.PIPE, stderr=subprocess.PIPE, env=e,
                             stdin=subprocess.PIPE if stdin is not None else subprocess.DEVNULL,
                             start_new_session=True)
        try:
            out, err = p.communicate(input=stdin, timeout=timeout)
            to = False
        except subprocess.TimeoutExpired:
            try:
                os.killpg(p.pid, 9)
            except OSError:
                pass
            out, err = p.communicate()
            to = True
        return CaseResult(cmd, p.returncode, out.decode("utf-8", "replace"), err.decode("utf-8", "replace"),
                          to, time.time() - t0, tag)
    except OSError as ex:
        return CaseResult(cmd, -999, "", str(ex), False, time.time() - t0, tag)


def run_cases(cases, parallel, timeout=120, env=None):
    """cases: list of (cmd, tag) or dicts; returns CaseResults in order."""
    def one(c):
        if isinstance(c, dict):
            return run_case(c["cmd"], c.get("timeout", timeout), c.get("env", env), c.get("tag"), c.get("stdin"))
        return run_case(c[0], timeout, env, c[1])
    with ThreadPoolExecutor(max(1, parallel)) as ex:
        return list(ex.map(one, cases))


def parse_records(text):
    """Engines speak a line protocol on stdout:
       VKEY <prop> <key> | <human detail>      a violation of <prop>'s oracle, stable key
       STAT <name> <int>                        coverage counter (summed)
       MAX <name> <num> / MIN <name> <num>
       SAMPLE <json>                            a case written out
       SIG <hex>                                a distinct-case signature
       OK <engine>                              the engine reached its normal end
    """
    v, stats, samples, sigs, ok = [], {}, [], [], False
    mx, mn = {}, {}
    for line in text.splitlines():
        if line.startswith("VKEY "):
            rest = line[5:]
            head, _, detail = rest.partition("|")
            parts = head.split()
            if len(parts) >= 2:
                v.append((parts[0], parts[1], detail.strip()))
        elif line.startswith("STAT "):
            p = line.split()
            try:
                stats[p[1]] = stats.get(p[1], 0) + int(p[2])
            except (IndexError, ValueError):
                pass
        elif line.startswith("MAX "):
            p = line.split()
            try:
                mx[p[1]] = max(mx.get(p[1], float("-inf")), float(p[2]))
            except (IndexError, ValueError):
                pass
        elif line.startswith("MIN "):
            p = line.split()
            try:
                mn[p[1]] = min(mn.get(p[1], float("inf")), float(p[2]))
            except (IndexError, ValueError):
                pass
        elif line.startswith("SAMPLE "):
            try:
                samples.append(json.loads(line[7:]))
            except ValueError:
                samples.append(line[7:])
        elif line.startswith("SIG "):
            sigs.append(line[4:].strip())
        elif line.startswith("OK "):
            ok = True
    return {"viol": v, "stats": stats, "samples": samples, "sigs": sigs, "ok": ok, "max": mx, "min": mn}


SAN_RE = re.compile(r"(ERROR: AddressSanitizer: [\w-]+|runtime error: [^\n]+|WARNING: ThreadSanitizer: [\w -]+|ERROR: LeakSanitizer)")
FRAME_RE = re.compile(r"#\d+ 0x[0-9a-f]+ in (\S+) ([^\s:]+)(?::(\d+))?")


def sanitizer_key(err):
    """Stable key of a sanitizer report: kind + innermost frame inside the repo (no addresses).
    A report whose innermost located frame is harness code (/verif) yields a 'HARNESS:' key."""
    m = SAN_RE.search(err)
    if not m:
        return None
    kind = m.group(1)
    kind = re.sub(r"0x[0-9a-f]+", "ADDR", kind)
    kind = re.sub(r"-?\d+", "N", kind)
    kind = re.sub(r"\s+", "_", kind.replace("ERROR: AddressSanitizer: ", "asan:")
                  .replace("WARNING: ThreadSanitizer: ", "tsan:").replace("runtime error: ", "ubsan:"))
    kind = re.sub(r"[^\w:.-]", "_", kind)[:80]
    where, harness = "?", False
    if kind.startswith("ubsan:"):
        lm = re.search(r"(\S+?):(\d+):\d+: runtime error", err)
        if lm:
            if lm.group(1).startswith(VERIF):
                harness = True
            where = os.path.basename(lm.group(1))
    else:
        first = True
        for fm in FRAME_RE.finditer(err[m.start():]):
            fn, path = fm.group(1), fm.group(2)
            if path.startswith(VERIF):
                if first:
                    harness = True
                    where = fn
                    break
                first = False
                continue
            if path.startswith(os.path.join(REPO, "src")) or path.startswith("/repo/src"):
                where = fn
                break
            if not (fn.startswith("__") or "sanitizer" in path or "asan" in path or fn in ("memcpy", "memset", "memcmp", "memmove", "free", "malloc", "realloc")):
                first = False
    return ("HARNESS:" if harness else "") + "%s@%s" % (kind, where)


# ----------------------------------------------------------------------------
# known findings, verdicts, evidence
# ----------------------------------------------------------------------------

def load_known():
    p = os.path.join(VERIF, "known_findings.json")
    try:
        d = json.load(open(p))
    except (OSError, ValueError):
        d = {}
    return d.get("known", []), d.get("fixed", [])


class Check:
    """Collects violations / coverage for one property and produces verdict + evidence."""

    def __init__(self, prop, tier, seed, level="exploration"):
        self.prop, self.tier, self.seed, self.level = prop, tier, seed, level
        self.t0 = time.time()
        self.viol = {}          # key -> {detail, replay, count}
        self.foreign = {}       # (prop,key) -> count   anomalies that belong to another property
        self.foreign_example = {}
        self.stats = {}
        self.max, self.min = {}, {}
        self.samples = []
        self.sigs = set()
        self.evaluations = 0
        self.inconclusive = []
        self.soft_inconclusive = []   # single cases that could not be decided (backstop fired, slow progress): tolerated up to a fraction
        self.soft_fraction = 0.2
        self.assumptions = []
        self.extra = {}
        self.rule = ""
        self.exhaustive = None
        self.distinct = None    # measured by the engine itself when set, else len(sigs)

    # -- collection --
    def add_stats(self, rec):
        for k, v in rec["stats"].items():
            self.stats[k] = self.stats.get(k, 0) + v
        for k, v in rec["max"].items():
            self.max[k] = max(self.max.get(k, float("-inf")), v)
        for k, v in rec["min"].items():
            self.min[k] = min(self.min.get(k, float("inf")), v)
        for s in rec["samples"]:
            if len(self.samples) < 6:
                self.samples.append(s)
        self.sigs.update(rec["sigs"])

    def violation(self, key, detail, replay_obj, prop=None):
        prop = prop or self.prop
        if prop != self.prop:
            k = (prop, key)
            self.foreign[k] = self.foreign.get(k, 0) + 1
            if k not in self.foreign_example and isinstance(replay_obj, dict):
                self.foreign_example[k] = "%s :: %s" % (replay_obj.get("tag") or replay_obj.get("cmd"), str(detail)[:300])
            return
        if key in self.viol:
            self.viol[key]["count"] += 1
            return
        os.makedirs(os.path.join(VERIF, "replays"), exist_ok=True)
        safe = re.sub(r"[^\w.-]", "_", key)[:100]
        path = os.path.join(VERIF, "replays", "%s_%s.json" % (self.prop, safe))
        try:
            json.dump({"property": self.prop, "key": key, "detail": detail, "replay": replay_obj},
                      open(path, "w"), indent=1, default=str)
        except OSError:
            pass
        self.viol[key] = {"detail": detail, "replay": path, "count": 1}

    def inconc(self, why):
        self.inconclusive.append(why)

    def inconc_case(self, why):
        """One case of many was inconclusive: recorded in the evidence; the check as a whole becomes inconclusive only when too many are."""
        self.soft_inconclusive.append(why)

    # -- verdict --
    def finish(self, min_evals=1, require=None):
        """require: dict name->minimum of self.stats that must have been observed, else inconclusive."""
        known, fixed = load_known()
        kmap = {(k["property"], k["key"]): k for k in known}
        new, kn = [], []
        for key, v in sorted(self.viol.items()):
            if (self.prop, key) in kmap:
                kn.append((key, v, kmap[(self.prop, key)]))
            else:
                new.append((key, v))
        for key, v, k in kn:
            print("KNOWN-FINDING: property=%s %s [%s] (seen %d time(s) in this run)" % (self.prop, k.get("what", v["detail"]), key, v["count"]))
        for key, v in new:
            print("violation key=%s :: %s (x%d)" % (key, v["detail"][:600], v["count"]))
            print("VIOLATION property=%s replay=%s" % (self.prop, v["replay"]))
        for (p, key), c in sorted(self.foreign.items()):
            print("note: anomaly belonging to %s seen %d time(s) while checking %s: %s (reported by that property's check) e.g. %s" % (p, c, self.prop, key, self.foreign_example.get((p, key), "")[:400]))
        if require:
            for name, mnv in require.items():
                if self.stats.get(name, 0) < mnv:
                    self.inconc("oracle input '%s' observed %d < %d" % (name, self.stats.get(name, 0), mnv))
        if self.evaluations < min_evals:
            self.inconc("only %d evaluations (< %d)" % (self.evaluations, min_evals))
        if self.soft_inconclusive and len(self.soft_inconclusive) > max(3, self.soft_fraction * max(1, self.evaluations)):
            self.inconc("%d of %d cases were individually inconclusive (more than %d%%)" % (len(self.soft_inconclusive), self.evaluations, int(self.soft_fraction * 100)))
        distinct = len(self.sigs) if self.distinct is None else int(self.distinct)
        cov = {
            "evaluations": int(self.evaluations),
            "distinct_nontrivial": int(distinct),
            "rule": self.rule,
            "samples": self.samples[:6] if self.samples else [],
            "counters": {k: self.stats[k] for k in sorted(self.stats)},
        }
        if self.max:
            cov["max"] = self.max
        if self.min:
            cov["min"] = self.min
        if self.exhaustive is not None:
            cov["exhaustive"] = bool(self.exhaustive)
        if self.foreign:
            cov["anomalies_of_other_properties"] = {"%s:%s" % k: c for k, c in self.foreign.items()}
        if self.inconclusive:
            cov["inconclusive"] = self.inconclusive[:20]
        if self.soft_inconclusive:
            cov["inconclusive_cases"] = {"count": len(self.soft_inconclusive), "examples": self.soft_inconclusive[:8]}
        if kn:
            cov["known_findings_seen"] = [k for k, _, _ in kn]
        cov.update(self.extra)
        ev = {
            "property_id": self.prop, "tier": self.tier, "seed": int(self.seed), "level": self.level,
            "coverage": cov, "assumptions": self.assumptions, "wall_s": round(time.time() - self.t0, 2),
            "violations": len(new),
        }
        # runs against a scratch copy (REPO=..., tools/seed.sh, tools/mut.sh) must not overwrite the evidence of /repo itself
        evdir = os.path.join(VERIF, "evidence") if os.path.realpath(REPO) == "/repo" else os.path.join(BUILD, "evidence-scratch")
        os.makedirs(evdir, exist_ok=True)
        json.dump(ev, open(os.path.join(evdir, self.prop + ".json"), "w"), indent=1, default=str)
        print("%s tier=%s seed=%d evaluations=%d distinct_nontrivial=%d violations=%d known=%d wall=%.1fs" %
              (self.prop, self.tier, self.seed, self.evaluations, distinct, len(new), len(kn), time.time() - self.t0))
        for k in sorted(self.stats):
            print("  observed %-34s %d" % (k, self.stats[k]))
        if self.soft_inconclusive:
            print("  %d individual case(s) inconclusive (tolerated), e.g. %s" % (len(self.soft_inconclusive), self.soft_inconclusive[0][:200]))
        if new:
            return 1
        if self.inconclusive or not self.samples or distinct < 2:
            for w in self.inconclusive[:10]:
                print("INCONCLUSIVE: " + w)
            if not self.samples:
                print("INCONCLUSIVE: no samples recorded")
            if distinct < 2:
                print("INCONCLUSIVE: fewer than 2 distinct non-trivial cases")
            return 2
        return 0


def absorb(chk, res, replay_extra=None, own_props=None):
    """Fold one engine process result into the check: protocol records, sanitizer reports, crashes, hangs.
    own_props: properties whose VKEYs this engine may emit (others are recorded as foreign)."""
    rec = parse_records(res.out)
    chk.add_stats(rec)
    chk.evaluations += rec["stats"].get("cases", 0)
    rp = {"cmd": res.cmd, "tag": res.tag}
    if replay_extra:
        rp.update(replay_extra)
    for prop, key, detail in rec["viol"]:
        chk.violation(key, detail, dict(rp, stdout_tail=res.out[-3000:]), prop=prop)
    if res.timed_out:
        return rec, "timeout"
    if res.rc != 0:
        sk = sanitizer_key(res.err)
        if sk:
            return rec, ("harness-san:" + sk) if sk.startswith("HARNESS:") else ("san:" + sk)
        if not rec["viol"]:
            return rec, "crash:rc=%s" % res.rc
        return rec, None
    if not rec["ok"] and not rec["viol"]:
        return rec, "noend"
    return rec, None


def generic_replay(prop, path):
    """./check <id> --replay <file>: re-run the recorded case (same engine command line, seeds and flavour; the engine is rebuilt from
    /repo's current tree when the recorded binary is gone). Schedule-dependent cases may need several attempts: up to 5 are made."""
    import importlib
    try:
        d = json.load(open(path))
    except (OSError, ValueError) as e:
        print("cannot read replay file: %s" % e)
        return 2
    rp = d.get("replay", {})
    print("replaying %s key=%s\n  recorded detail: %s" % (d.get("property"), d.get("key"), str(d.get("detail"))[:400]))
    cmd = rp.get("cmd")
    case = rp.get("case")
    if case and "mseed" in case:
        if "ranks" in case:
            mc = importlib.import_module("mpi_common")
            case = dict(case, exe=mc.mpi_exe(case.get("flavour", "asan")))
            for attempt in range(5):
                res, texts = mc.run_one(case, 120)
                out = "\n".join(texts)
                if "VKEY %s " % prop in out:
                    print(out[-3000:])
                    print("VIOLATION property=%s replay=%s" % (prop, path))
                    return 1
            print("not reproduced in 5 attempts (schedule dependent); the recorded output is in the replay file")
            return 0
        sc = importlib.import_module("sim_common")
        case = dict(case, exe=sc.sim_exe(case.get("flavour", "asan")))
        cmd = sc.cmd_of(case)
    if not cmd:
        print("replay file holds no command")
        return 2
    if not os.path.exists(cmd[0]):
        print("recorded engine binary %s no longer exists; run the check itself to rebuild it (build cache is content-addressed)" % cmd[0])
        return 2
    for attempt in range(5):
        res = run_case(cmd, timeout=600, env=(case or {}).get("env") if isinstance(case, dict) else None)
        sk = sanitizer_key(res.err)
        if "VKEY %s " % prop in res.out or (sk and not sk.startswith("HARNESS")):
            print((res.out[-2500:] + "\n" + res.err[-1500:]))
            print("VIOLATION property=%s replay=%s" % (prop, path))
            return 1
    print("not reproduced in 5 attempts; the recorded output is in the replay file")
    return 0
