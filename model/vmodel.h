/* Generated-model family shared by the serial, sim and mpi engines.
 * A model is a pure function of a 64-bit model seed. The SAME handler code runs (a) under the independent reference
 * executor (plain malloc, own event list) and (b) under the core (rs_malloc, ScheduleNewEvent), through `struct venv`.
 */
#pragma once
#include <ROOT-Sim.h>
#include <stdbool.h>
#include <stdint.h>
#include <stddef.h>

#define VM_MAXLP 128
#define VM_NSLOTS 6
#define VM_MAXPL 300

enum { EV_TOKEN = 1, EV_SIDE = 2, EV_SIDE2 = 3, EV_STOPPER = 4 };

struct vm_params {
	uint64_t seed;
	unsigned n_lps;
	unsigned tokens;          /* initial tokens per LP */
	uint32_t target[VM_MAXLP]; /* predicate: processed events >= target (0: true at initialisation) */
	int ts_mode;              /* 0 lattice with zero delays, 1 continuous, 2 integer steps (dense ties) */
	int dest_mode;            /* 0 self heavy, 1 ring neighbour, 2 uniform, 3 hot spot */
	int payload_mode;         /* 0 none, 1 <= 32 bytes, 2 mixed up to 300 bytes */
	int mem_mode;             /* 0 fixed struct, 1 small dynamic buffers, 2 large buffers (several 64 KiB arenas) */
	int rng_mode;             /* 0 hash PRNG kept inside the state, 1 library Random()/RandomRange()/Expent()/Normal()/Gamma()/Zipf() */
	int side_max;             /* extra leaf events per token 0..2 */
	uint32_t busy[VM_MAXLP];  /* busy-work iterations per event (LP skew => stragglers, deep rollbacks) */
	int init_ts0;             /* initial tokens are scheduled at timestamp 0 (predicate may first hold at a timestamp-0 event) */
	int stop_lp;              /* RootsimStop() from this LP's handler ... (-1: never) */
	uint32_t stop_at;         /* ... when it processes its stop_at-th event */
	double term_time;         /* termination time (0: none) */
	uint32_t total_target;    /* sum of targets (size of the run) */
	uint32_t sparse_div;      /* one in sparse_div hops aimed at the sparse LP really reaches it */
	double end_ts;            /* > 0: an LP is also done once it processes an event at or after this timestamp (all LPs become done within
	                             a narrow band of virtual time: terminations cluster, rollbacks around the band flip them back and forth) */
	uint8_t stateless[VM_MAXLP]; /* LPs that never call SetState(): pure routers whose every decision comes from the library generator, so
	                             the generator context is their only rollbackable state (only with VM_STATELESS=1) */
	int sparse_lp;            /* an LP that receives an event only once in a while and is done after one or two (-1: none): its terminating
	                             event is usually speculative and, once cancelled, nothing else reaches it for a long time */
};

struct vm_state {
	uint64_t count;
	uint64_t acc;
	uint64_t prng;
	uint32_t frozen;
	uint32_t stop_called;
	double last_now;
	struct {
		unsigned char *p;
		uint32_t size;
	} slot[VM_NSLOTS];
};

/* environment the handler runs in */
struct venv {
	void (*schedule)(lp_id_t dst, simtime_t ts, unsigned type, const void *pl, unsigned size);
	void *(*xmalloc)(size_t);
	void *(*xcalloc)(size_t, size_t);
	void *(*xrealloc)(void *, size_t);
	void (*xfree)(void *);
	void (*set_state)(void *);
	void (*stop)(void);
	uint64_t *(*rng_words)(void); /* the 4 words of the calling LP's library generator */
	bool is_reference;
};

extern struct vm_params VM;
extern struct venv vm_core_env;
extern struct venv *vm_env; /* selected environment (set by the engine before events are dispatched) */

extern void vm_generate(uint64_t seed, unsigned size_class);
extern void vm_describe(char *buf, size_t n);

/* the dispatcher / predicate handed to the core (and called by the reference executor) */
extern void vm_process(lp_id_t me, simtime_t now, unsigned type, const void *pl, unsigned size, void *st);
extern bool vm_can_end(lp_id_t me, const void *st);
extern uint64_t vm_digest(lp_id_t me, const struct vm_state *s);
extern uint64_t vm_payload_hash(const void *pl, unsigned size);

/* model-side observation of dispatcher calls (API boundary) */
struct vm_call {
	uint32_t lp;
	uint32_t type;
	uint32_t size;
	double now;
	uint64_t plh;
};
typedef void (*vm_observer_t)(const struct vm_call *c, const struct vm_state *after);
extern vm_observer_t vm_observer;           /* called after every TOKEN/SIDE dispatch (forward or silent) */
extern void (*vm_init_observer)(lp_id_t me, const struct vm_state *after);
extern void (*vm_fini_observer)(lp_id_t me, const struct vm_state *s);

/* ---------------- reference executor ---------------- */
struct ref_ev {
	uint64_t gidx; /* 1-based position in the global delivery order of the reference run */
	double ts;
	uint32_t type, size;
	uint64_t plh;
	uint64_t digest_after; /* state digest after this event */
};
struct ref_lp {
	struct ref_ev *ev;       /* events delivered to this LP, in order */
	uint32_t n, cap;
	int64_t pred_pos;        /* number of delivered events after which the predicate first held (0: at init); -1 never */
	uint64_t pred_digest;    /* digest when the predicate first held */
	uint64_t init_digest;
	uint64_t final_digest;   /* digest at the end of the reference run */
	struct vm_state *state;
};
struct ref_result {
	struct ref_lp lp[VM_MAXLP];
	uint64_t delivered;         /* events delivered in total (including those beyond the stop point) */
	uint64_t total_events;      /* events delivered until the stop point */
	uint64_t stop_index;        /* global index (1-based count) of the event at which all predicates held; 0 if never */
	double stop_ts;             /* its timestamp */
	uint32_t stop_lp;           /* the LP whose predicate was the last to become true */
	uint64_t events_with_tie;   /* deliveries whose predecessor in the global order had the same timestamp */
	uint64_t zero_delay_sends;
	uint64_t init_sends;
	bool all_terminate;
	bool queue_ran_empty;
	bool stop_called;
	uint64_t stop_call_index;
	double stop_call_ts;
};
extern struct ref_result REF;
/* runs the reference until every predicate holds (or the limits), then `extra` more events */
extern void ref_run(uint64_t max_events, uint64_t extra_events, double extra_time);
extern void ref_free(void);
