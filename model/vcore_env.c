/* The environment that maps the model's calls onto the core's public API. */
#include "vmodel.h"
#include <lp/lp.h>

static uint64_t *core_rng_words(void) { return current_lp->rng_ctx->state; }
static void core_schedule(lp_id_t dst, simtime_t ts, unsigned type, const void *pl, unsigned size) { ScheduleNewEvent(dst, ts, type, pl, size); }

struct venv vm_core_env = {.schedule = core_schedule, .xmalloc = rs_malloc, .xcalloc = rs_calloc, .xrealloc = rs_realloc, .xfree = rs_free,
    .set_state = SetState, .stop = RootsimStop, .rng_words = core_rng_words, .is_reference = false};
