/* Generated-model family + independent reference executor. See vmodel.h. */
#include "vmodel.h"

#include <lp/lp.h>
#include <lp/msg.h>
#include <lib/random/random.h>

#include <math.h>
#include <stdio.h>
#include <stdlib.h>
#include <string.h>

struct vm_params VM;
struct venv *vm_env;
vm_observer_t vm_observer;
void (*vm_init_observer)(lp_id_t me, const struct vm_state *after);
void (*vm_fini_observer)(lp_id_t me, const struct vm_state *s);
struct ref_result REF;

#define TOKEN_BASE 10u /* token types TOKEN_BASE..TOKEN_BASE+TOKEN_HOPS: the offset is the remaining zero-delay hop budget */
/* ts_mode 3 ("bursts", only through VM_FORCE_TS=3): integer timestamps, three sends out of four with zero delay, chains of up to 12
 * simultaneous hops, so that many causally independent events share the timestamp a GVT reduction lands on */
#define TOKEN_HOPS (VM.ts_mode == 3 ? 12u : 3u)

static inline uint64_t mix64(uint64_t h, uint64_t v)
{
	h ^= v + 0x9E3779B97F4A7C15ULL + (h << 6) + (h >> 2);
	h *= 0xff51afd7ed558ccdULL;
	h ^= h >> 33;
	h *= 0xc4ceb9fe1a85ec53ULL;
	h ^= h >> 29;
	return h;
}
static inline uint64_t dbits(double d)
{
	uint64_t u;
	memcpy(&u, &d, sizeof(u));
	return u;
}
static uint64_t hash_bytes(uint64_t h, const void *p, size_t n)
{
	const unsigned char *c = p;
	while(n >= 8) {
		uint64_t w;
		memcpy(&w, c, 8);
		h = mix64(h, w);
		c += 8;
		n -= 8;
	}
	uint64_t w = 0;
	memcpy(&w, c, n);
	return mix64(h, w ^ ((uint64_t)n << 56));
}

uint64_t vm_payload_hash(const void *pl, unsigned size)
{
	return size ? hash_bytes(0x51ed, pl, size) : 0;
}

/* ---------------- generation ---------------- */
static uint64_t gen_s;
static uint64_t gnext(void)
{
	gen_s += 0x9E3779B97F4A7C15ULL;
	uint64_t z = gen_s;
	z = (z ^ (z >> 30)) * 0xBF58476D1CE4E5B9ULL;
	z = (z ^ (z >> 27)) * 0x94D049BB133111EBULL;
	return z ^ (z >> 31);
}
static unsigned gbelow(unsigned n) { return n ? (unsigned)(gnext() % n) : 0; }

void vm_generate(uint64_t seed, unsigned size_class)
{
	memset(&VM, 0, sizeof(VM));
	VM.seed = seed;
	gen_s = seed * 0x2545F4914F6CDD1DULL + 12345;
	static const unsigned lpset[] = {1, 2, 2, 3, 3, 4, 4, 5, 6, 8, 8, 12, 16, 16, 24, 32, 48, 64, 96};
	VM.n_lps = lpset[gbelow(sizeof(lpset) / sizeof(lpset[0]))];
	VM.tokens = 1 + gbelow(3);
	unsigned total = size_class == 0 ? 1500 + gbelow(3000) : size_class == 1 ? 8000 + gbelow(12000) : 40000 + gbelow(40000);
	unsigned base = total / VM.n_lps + 1;
	VM.ts_mode = (int)gbelow(3);
	VM.dest_mode = (int)gbelow(4);
	VM.payload_mode = (int)gbelow(3);
	VM.mem_mode = (int)((unsigned[]){0, 1, 1, 2})[gbelow(4)];
	VM.rng_mode = gbelow(4) == 0;
	VM.side_max = (int)gbelow(3);
	VM.init_ts0 = gbelow(4) == 0;
	VM.stop_lp = -1;
	int skew = (int)gbelow(3);
	unsigned heavy = gbelow(VM.n_lps);
	for(unsigned i = 0; i < VM.n_lps; ++i) {
		unsigned r = gbelow(10);
		if(r == 0 && VM.n_lps > 1)
			VM.target[i] = 0; /* predicate true at initialisation */
		else if(r == 1)
			VM.target[i] = 1 + gbelow(20); /* reaches its target very early: unbalanced termination */
		else
			VM.target[i] = base / 2 + gbelow(base);
		VM.busy[i] = skew == 0 ? 0 : skew == 1 ? gbelow(400) : (i == heavy ? 3000 + gbelow(3000) : gbelow(100));
		VM.total_target += VM.target[i];
	}
	if(VM.total_target == 0) {
		VM.target[0] = base;
		VM.total_target = base;
	}
	VM.sparse_lp = -1;
	unsigned sp = gbelow(3);
	if(getenv("VM_FORCE_SPARSE"))
		sp = atoi(getenv("VM_FORCE_SPARSE")) ? 0 : 1;
	if(VM.n_lps >= 3 && sp == 0) {
		VM.sparse_lp = (int)gbelow(VM.n_lps);
		VM.total_target -= VM.target[VM.sparse_lp];
		VM.target[VM.sparse_lp] = 1 + gbelow(2);
		VM.total_target += VM.target[VM.sparse_lp];
		VM.sparse_div = VM.total_target / (3 * VM.n_lps) + 4; /* a handful of arrivals over the whole run */
	}
	/* engines may pin single parameters of the family (applies to the reference and the core run alike) */
	const char *f = getenv("VM_FORCE_RNG");
	if(f)
		VM.rng_mode = atoi(f);
	f = getenv("VM_FORCE_MEM");
	if(f)
		VM.mem_mode = atoi(f);
	f = getenv("VM_FORCE_TS");
	if(f)
		VM.ts_mode = atoi(f);
	f = getenv("VM_FORCE_DEST");
	if(f)
		VM.dest_mode = atoi(f);
	f = getenv("VM_STATELESS");
	if(f && atoi(f) && VM.n_lps >= 3) {
		for(unsigned i = 1; i < VM.n_lps; i += 3) {
			if((int)i == VM.sparse_lp)
				continue;
			VM.stateless[i] = 1;
			VM.total_target -= VM.target[i];
			VM.target[i] = 0;
		}
		if(!VM.total_target)
			VM.total_target = VM.target[0] = 400;
	}
	f = getenv("VM_FORCE_LPS");
	if(f && (unsigned)atoi(f) < VM.n_lps) { /* shrink the model: keep the per-LP targets, drop the other LPs */
		VM.n_lps = (unsigned)atoi(f);
		VM.total_target = 0;
		for(unsigned i = 0; i < VM.n_lps; ++i)
			VM.total_target += VM.target[i];
		if(!VM.total_target)
			VM.total_target = VM.target[0] = 400;
	}
}

void vm_describe(char *buf, size_t n)
{
	snprintf(buf, n, "{\"model_seed\":%llu,\"lps\":%u,\"tokens\":%u,\"ts_mode\":%d,\"dest_mode\":%d,\"payload_mode\":%d,\"mem_mode\":%d,\"rng_mode\":%d,\"side_max\":%d,\"init_ts0\":%d,\"total_target\":%u,\"stop\":[%d,%u],\"term_time\":%g,\"sparse_lp\":%d,\"end_ts\":%g}",
	    (unsigned long long)VM.seed, VM.n_lps, VM.tokens, VM.ts_mode, VM.dest_mode, VM.payload_mode, VM.mem_mode, VM.rng_mode, VM.side_max,
	    VM.init_ts0, VM.total_target, VM.stop_lp, VM.stop_at, VM.term_time, VM.sparse_lp, VM.end_ts);
}

/* ---------------- handler ---------------- */
uint64_t vm_digest(lp_id_t me, const struct vm_state *s)
{
	uint64_t h = mix64(0xD1CE, me);
	if(!s) /* stateless LP: nothing the model can observe at the end (its generator keeps running after the others are done) */
		return h;
	h = mix64(h, s->count);
	h = mix64(h, s->acc);
	h = mix64(h, s->prng);
	h = mix64(h, s->frozen);
	h = mix64(h, s->stop_called);
	h = mix64(h, dbits(s->last_now));
	for(unsigned i = 0; i < VM_NSLOTS; ++i) {
		h = mix64(h, s->slot[i].size);
		if(s->slot[i].p)
			h = hash_bytes(h, s->slot[i].p, s->slot[i].size);
	}
	if(VM.rng_mode) {
		const uint64_t *w = vm_env->rng_words();
		h = mix64(mix64(mix64(mix64(h, w[0]), w[1]), w[2]), w[3]);
	}
	return h;
}

bool vm_can_end(lp_id_t me, const void *st)
{
	const struct vm_state *s = st;
	if(!s)
		return VM.stateless[me];
	return s->frozen;
}

static void fill_buf(unsigned char *p, uint32_t n, uint64_t pat)
{
	for(uint32_t i = 0; i < n; i += 8) {
		pat = pat * 6364136223846793005ULL + 1442695040888963407ULL;
		uint64_t v = pat >> 8;
		memcpy(p + i, &v, n - i >= 8 ? 8 : n - i);
	}
}

static uint32_t mem_size(uint64_t h)
{
	if(VM.mem_mode == 1)
		return 16 + (uint32_t)(h % 600);
	switch(h % 8) {
		case 0: return 65536 - (uint32_t)((h >> 8) % 3);
		case 1: return 20000 + (uint32_t)((h >> 8) % 20000);
		case 2: return 32768 + (uint32_t)((h >> 8) % 3) - 1;
		default: return 64 + (uint32_t)((h >> 8) % 4000);
	}
}

static void mem_ops(struct vm_state *s, uint64_t h)
{
	unsigned k = (unsigned)(h % VM_NSLOTS);
	unsigned op = (unsigned)((h >> 8) % 8);
	uint64_t pat = h >> 16;
	if(!s->slot[k].p) {
		if(op < 5) {
			uint32_t sz = mem_size(h >> 24);
			s->slot[k].p = vm_env->xmalloc(sz);
			s->slot[k].size = sz;
			fill_buf(s->slot[k].p, sz, pat);
		} else if(op == 5) {
			uint32_t sz = mem_size(h >> 24) & ~7u;
			if(!sz)
				sz = 8;
			s->slot[k].p = vm_env->xcalloc(sz / 8, 8);
			s->slot[k].size = sz;
		}
		return;
	}
	switch(op) {
		case 0:
		case 1:
			vm_env->xfree(s->slot[k].p);
			s->slot[k].p = NULL;
			s->slot[k].size = 0;
			break;
		case 2:
		case 3: {
			uint32_t sz = mem_size(h >> 24), old = s->slot[k].size;
			s->slot[k].p = vm_env->xrealloc(s->slot[k].p, sz);
			s->slot[k].size = sz;
			if(sz > old)
				fill_buf(s->slot[k].p + old, sz - old, pat);
			break;
		}
		case 4: /* touch a few bytes only */
			s->slot[k].p[(h >> 30) % s->slot[k].size] ^= (unsigned char)(pat | 1);
			break;
		default:
			fill_buf(s->slot[k].p, s->slot[k].size < 512 ? s->slot[k].size : 512, pat);
	}
}

/* would an event with these fields be ordered BEFORE the one being processed? asks the runtime's own comparator */
static bool before_current(double ts, unsigned type, const void *pl, unsigned size, double now, unsigned cur_type, const void *cur_pl,
    unsigned cur_size)
{
	static __thread union {
		struct lp_msg m;
		unsigned char raw[sizeof(struct lp_msg) + VM_MAXPL];
	} a, b;
	a.m.dest_t = ts;
	a.m.raw_flags = 0;
	a.m.m_type = type;
	a.m.pl_size = size;
	if(size)
		memcpy(a.m.pl, pl, size);
	b.m.dest_t = now;
	b.m.raw_flags = 0;
	b.m.m_type = cur_type;
	b.m.pl_size = cur_size;
	if(cur_size)
		memcpy(b.m.pl, cur_pl, cur_size);
	return msg_is_before(&a.m, &b.m);
}

static unsigned pick_dest_raw(lp_id_t me, uint64_t h)
{
	unsigned n = VM.n_lps;
	switch(VM.dest_mode) {
		case 0: return (h % 4) ? (unsigned)me : (unsigned)((h >> 8) % n);
		case 1: return (unsigned)((me + 1 + ((h % 5) == 0)) % n);
		case 2: return (unsigned)((h >> 8) % n);
		default: return (h % 3) ? 0 : (unsigned)((h >> 8) % n);
	}
}
static unsigned pick_dest(lp_id_t me, uint64_t h)
{
	unsigned d = pick_dest_raw(me, h);
	/* the sparse LP is by-passed most of the time (also by itself: it hands its tokens on) */
	if(VM.sparse_lp >= 0 && d == (unsigned)VM.sparse_lp && (h >> 44) % VM.sparse_div != 0)
		d = (d + 1 + (unsigned)((h >> 36) % (VM.n_lps - 1))) % VM.n_lps;
	return d;
}

static double pick_delay(uint64_t h, bool allow_zero)
{
	switch(VM.ts_mode) {
		case 0: {
			static const double lat[] = {0.0, 0.0, 0.25, 0.5, 1.0, 2.0};
			double d = lat[h % 6];
			return (d == 0.0 && !allow_zero) ? 0.25 : d;
		}
		case 1: return 0.01 + (double)((h >> 11) & 0xFFFFF) / (double)0x100000 * 2.0;
		case 3: return ((h % 4) != 3 && allow_zero) ? 0.0 : 1.0;
		default: {
			static const double st[] = {0.0, 1.0, 1.0, 2.0};
			double d = st[h % 4];
			return (d == 0.0 && !allow_zero) ? 1.0 : d;
		}
	}
}

static unsigned pick_payload(uint64_t h, unsigned char *buf)
{
	static const unsigned s1[] = {0, 8, 8, 32};
	static const unsigned s2[] = {0, 8, 32, 33, 64, 300, 40, 8};
	unsigned size = VM.payload_mode == 0 ? 0 : VM.payload_mode == 1 ? s1[h % 4] : s2[h % 8];
	if(size) { /* low entropy on purpose: equal payloads and payloads differing late are common */
		memset(buf, (int)((h >> 8) % 3), size);
		buf[size - 1] = (unsigned char)((h >> 12) % 3);
		if(size > 40)
			buf[36] = (unsigned char)((h >> 16) % 2);
	}
	return size;
}

static void send_one(lp_id_t me, double now, unsigned cur_type, const void *cur_pl, unsigned cur_size, uint64_t h, unsigned type, bool allow_zero)
{
	unsigned char buf[VM_MAXPL];
	unsigned dst = pick_dest(me, h);
	double delay = pick_delay(h >> 20, allow_zero);
	unsigned size = pick_payload(h >> 28, buf);
	double ts = now + delay;
	/* API contract: a new event must not be ordered before the one being processed */
	while(before_current(ts, type, buf, size, now, cur_type, cur_pl, cur_size)) {
		delay += VM.ts_mode >= 2 ? 1.0 : 0.25;
		ts = now + delay;
	}
	if(ts == now)
		REF.zero_delay_sends += vm_env->is_reference;
	vm_env->schedule(dst, ts, type, size ? buf : NULL, size);
}

static double lib_delay(void)
{
	double d = Expent(0.7);
	return d < 1e-3 ? 1e-3 : d;
}

static void send_initial_tokens(lp_id_t me)
{
	for(unsigned t = 0; t < VM.tokens; ++t) {
		uint64_t h = mix64(mix64(VM.seed, me), 1000 + t);
		unsigned char buf[VM_MAXPL];
		unsigned psz = pick_payload(h >> 28, buf);
		double ts = VM.init_ts0 ? 0.0 : pick_delay(h >> 20, true) + (VM.ts_mode == 1 ? 0.0 : (double)(h % 2));
		unsigned dst = (t == 0 && (int)me != VM.sparse_lp) ? (unsigned)me : pick_dest(me, h);
		unsigned ty = before_current(1.0, TOKEN_BASE + TOKEN_HOPS, NULL, 0, 1.0, TOKEN_BASE, NULL, 0) ? TOKEN_BASE + TOKEN_HOPS : TOKEN_BASE;
		while(before_current(ts, ty, buf, psz, 0.0, LP_INIT, NULL, 0))
			ts += 0.25;
		REF.init_sends += vm_env->is_reference;
		vm_env->schedule(dst, ts, ty, psz ? buf : NULL, psz);
	}
}

void vm_process(lp_id_t me, simtime_t now, unsigned type, const void *pl, unsigned size, void *st)
{
	if(type == LP_INIT && VM.stateless[me]) {
		send_initial_tokens(me);
		if(vm_init_observer)
			vm_init_observer(me, NULL);
		return;
	}
	if(type == LP_INIT) {
		struct vm_state *s = vm_env->xmalloc(sizeof(*s));
		memset(s, 0, sizeof(*s));
		s->prng = mix64(VM.seed, me * 2 + 1);
		s->acc = mix64(VM.seed ^ 0xABCDEF, me);
		if(VM.mem_mode) {
			for(unsigned k = 0; k < 2; ++k) {
				uint32_t sz = mem_size(mix64(s->prng, k));
				s->slot[k].p = vm_env->xmalloc(sz);
				s->slot[k].size = sz;
				fill_buf(s->slot[k].p, sz, s->prng + k);
			}
		}
		if(VM.target[me] == 0)
			s->frozen = 1;
		vm_env->set_state(s);
		send_initial_tokens(me);
		if(vm_init_observer)
			vm_init_observer(me, s);
		return;
	}
	struct vm_state *s = st;
	if(type == LP_FINI) {
		if(vm_fini_observer)
			vm_fini_observer(me, s);
		return;
	}
	/* busy work: skews LP speeds */
	volatile uint64_t sink = 0;
	for(uint32_t i = 0; i < VM.busy[me]; ++i)
		sink += i * 2654435761u;
	(void)sink;

	uint64_t plh = vm_payload_hash(pl, size);
	uint64_t evh = mix64(mix64(mix64(mix64(0xE7, dbits(now)), type), size), plh);
	if(!s) {
		/* stateless router: destination, delay and payload of the forwarded token come from the library generator alone */
		uint64_t a = RandomU64();
		double d = lib_delay();
		double g = Normal();
		uint64_t hr = mix64(mix64(a, dbits(g)), evh);
		if(type >= TOKEN_BASE && type <= TOKEN_BASE + TOKEN_HOPS) {
			unsigned char buf[VM_MAXPL];
			unsigned psz = pick_payload(hr >> 28, buf);
			unsigned first = before_current(1.0, TOKEN_BASE + TOKEN_HOPS, NULL, 0, 1.0, TOKEN_BASE, NULL, 0) ? TOKEN_BASE + TOKEN_HOPS : TOKEN_BASE;
			vm_env->schedule(pick_dest(me, hr), now + d, first, psz ? buf : NULL, psz);
		}
		if(vm_observer) {
			struct vm_call c = {.lp = (uint32_t)me, .type = type, .size = size, .now = now, .plh = plh};
			vm_observer(&c, NULL);
		}
		return;
	}
	bool live = !s->frozen;
	uint64_t h;
	double ldelay = 0;
	if(live) {
		s->count++;
		s->acc = mix64(s->acc, evh);
		s->last_now = now;
		if(VM.rng_mode) {
			/* every decision comes from the library generator (its state is part of the rollbackable state) */
			uint64_t a = RandomU64();
			int rr = RandomRange(0, 1000);
			double n = Normal();
			double g = Gamma(1 + (unsigned)(a % 9));
			unsigned z = Zipf(1.5, 50);
			double r = Random();
			ldelay = lib_delay();
			s->acc = mix64(s->acc, a ^ (uint64_t)rr ^ dbits(n) ^ dbits(g) ^ z ^ dbits(r) ^ dbits(ldelay));
			h = mix64(a, s->acc);
		} else {
			s->prng = s->prng * 6364136223846793005ULL + 1442695040888963407ULL;
			h = mix64(s->prng, s->acc);
		}
		if(VM.mem_mode)
			mem_ops(s, mix64(h, 77));
		if(VM.stop_lp == (int)me && s->count == VM.stop_at && !s->stop_called) {
			s->stop_called = 1;
			vm_env->stop();
		}
		if(s->count >= VM.target[me] || (VM.end_ts > 0 && now >= VM.end_ts))
			s->frozen = 1;
	} else {
		h = mix64(evh, me); /* frozen: decisions are a function of the event only, the state no longer changes */
	}

	if(type >= TOKEN_BASE && type <= TOKEN_BASE + TOKEN_HOPS) {
		/* Zero-delay hops move the token type one step in the direction the runtime's tie-break orders LATER, so chains of
		 * simultaneous hops are bounded whatever that direction is; a positive delay resets the type to the "first" end. */
		static __thread int step; /* -1: larger types go first (so a smaller type is later), +1: the opposite */
		if(!step)
			step = before_current(1.0, TOKEN_BASE + TOKEN_HOPS, NULL, 0, 1.0, TOKEN_BASE, NULL, 0) ? -1 : 1;
		unsigned start = step < 0 ? TOKEN_BASE + TOKEN_HOPS : TOKEN_BASE, end = step < 0 ? TOKEN_BASE : TOKEN_BASE + TOKEN_HOPS;
		uint64_t hs = mix64(h, 1);
		bool zero_ok = type != end;
		double d0 = pick_delay(hs >> 20, zero_ok);
		unsigned ntype = (d0 == 0.0 && zero_ok) ? (unsigned)((int)type + step) : start;
		if(VM.rng_mode && live) {
			/* continuous, library-driven delay */
			unsigned char buf[VM_MAXPL];
			unsigned psz = pick_payload(hs >> 28, buf);
			vm_env->schedule(pick_dest(me, hs), now + ldelay, start, psz ? buf : NULL, psz);
		} else {
			send_one(me, now, type, pl, size, hs, ntype, zero_ok);
		}
		unsigned ns = VM.side_max ? (unsigned)((h >> 40) % (VM.side_max + 1)) : 0;
		for(unsigned k = 0; k < ns; ++k)
			send_one(me, now, type, pl, size, mix64(h, 10 + k), (k & 1) ? EV_SIDE2 : EV_SIDE, true);
	}
	if(vm_observer) {
		struct vm_call c = {.lp = (uint32_t)me, .type = type, .size = size, .now = now, .plh = plh};
		vm_observer(&c, s);
	}
}

/* ---------------- reference executor ---------------- */
static struct lp_msg **rq;
static size_t rq_n, rq_cap;
static struct lp_ctx ref_lps[VM_MAXLP];
static struct rng_ctx ref_rng[VM_MAXLP];
static lp_id_t ref_me;
static void *ref_state_ptr[VM_MAXLP];

static void rq_push(struct lp_msg *m)
{
	if(rq_n == rq_cap) {
		rq_cap = rq_cap ? rq_cap * 2 : 1024;
		rq = realloc(rq, rq_cap * sizeof(*rq));
	}
	size_t i = rq_n++;
	while(i) {
		size_t p = (i - 1) / 2;
		if(!msg_is_before(m, rq[p]))
			break;
		rq[i] = rq[p];
		i = p;
	}
	rq[i] = m;
}
static struct lp_msg *rq_pop(void)
{
	struct lp_msg *top = rq[0];
	struct lp_msg *last = rq[--rq_n];
	size_t i = 0;
	while(1) {
		size_t c = 2 * i + 1;
		if(c >= rq_n)
			break;
		if(c + 1 < rq_n && msg_is_before(rq[c + 1], rq[c]))
			c++;
		if(!msg_is_before(rq[c], last))
			break;
		rq[i] = rq[c];
		i = c;
	}
	if(rq_n)
		rq[i] = last;
	return top;
}

static void ref_schedule(lp_id_t dst, simtime_t ts, unsigned type, const void *pl, unsigned size)
{
	struct lp_msg *m = malloc(sizeof(*m) + (size > MSG_PAYLOAD_BASE_SIZE ? size - MSG_PAYLOAD_BASE_SIZE : 0));
	memset(m, 0, sizeof(*m));
	m->dest = dst;
	m->dest_t = ts;
	m->raw_flags = 0;
	m->m_type = type;
	m->pl_size = size;
	if(size)
		memcpy(m->pl, pl, size);
	rq_push(m);
}
static void ref_set_state(void *s) { ref_state_ptr[ref_me] = s; }
static void ref_stop(void)
{
	if(!REF.stop_called) {
		REF.stop_called = true;
		REF.stop_call_index = REF.total_events + 1;
	}
}
static uint64_t *ref_rng_words(void) { return ref_rng[ref_me].state; }
static void *ref_calloc(size_t a, size_t b) { return calloc(a, b); }

static struct venv ref_env = {.schedule = ref_schedule, .xmalloc = malloc, .xcalloc = ref_calloc, .xrealloc = realloc, .xfree = free,
    .set_state = ref_set_state, .stop = ref_stop, .rng_words = ref_rng_words, .is_reference = true};

void ref_run(uint64_t max_events, uint64_t extra_events, double extra_time)
{
	struct venv *saved = vm_env;
	struct lp_ctx *saved_lp = current_lp;
	vm_env = &ref_env;
	memset(&REF, 0, sizeof(REF));
	unsigned n = VM.n_lps, pending = n;
	for(unsigned i = 0; i < n; ++i) {
		ref_lps[i].rng_ctx = &ref_rng[i];
		random_lib_lp_init(i, &ref_rng[i]);
		REF.lp[i].pred_pos = -1;
	}
	for(unsigned i = 0; i < n; ++i) {
		ref_me = i;
		current_lp = &ref_lps[i];
		ref_state_ptr[i] = NULL; /* an LP that registers no state must not inherit the pointer of an earlier reference run */
		vm_process(i, 0.0, LP_INIT, NULL, 0, NULL);
		struct ref_lp *L = &REF.lp[i];
		L->state = ref_state_ptr[i];
		L->init_digest = vm_digest(i, L->state);
		if(vm_can_end(i, L->state)) {
			L->pred_pos = 0;
			L->pred_digest = L->init_digest;
			pending--;
		}
	}
	double prev_ts = -1;
	uint64_t after = 0;
	double stop_ts = 0;
	while(rq_n) {
		if(REF.stop_index) {
			/* beyond the sequential end point: keep going so committed prefixes of longer parallel runs can be compared */
			if(after >= extra_events && rq[0]->dest_t > stop_ts + extra_time)
				break;
			if(after >= extra_events * 8)
				break;
			after++;
		} else if(REF.total_events >= max_events) {
			break;
		}
		struct lp_msg *m = rq_pop();
		unsigned d = (unsigned)m->dest;
		ref_me = d;
		current_lp = &ref_lps[d];
		struct ref_lp *L = &REF.lp[d];
		REF.delivered++;
		if(!REF.stop_index) {
			REF.total_events++;
			REF.events_with_tie += m->dest_t == prev_ts;
		}
		prev_ts = m->dest_t;
		vm_process(d, m->dest_t, m->m_type, m->pl, m->pl_size, L->state);
		if(REF.stop_called && REF.stop_call_ts == 0 && REF.stop_call_index)
			REF.stop_call_ts = m->dest_t;
		if(L->n == L->cap) {
			L->cap = L->cap ? L->cap * 2 : 256;
			L->ev = realloc(L->ev, L->cap * sizeof(*L->ev));
		}
		L->ev[L->n++] = (struct ref_ev){.gidx = REF.delivered, .ts = m->dest_t, .type = m->m_type, .size = m->pl_size,
		    .plh = vm_payload_hash(m->pl, m->pl_size), .digest_after = vm_digest(d, L->state)};
		if(L->pred_pos < 0 && vm_can_end(d, L->state)) {
			L->pred_pos = L->n;
			L->pred_digest = L->ev[L->n - 1].digest_after;
			if(--pending == 0) {
				REF.stop_index = REF.total_events;
				REF.stop_ts = stop_ts = m->dest_t;
				REF.stop_lp = d;
				REF.all_terminate = true;
			}
		}
		free(m);
	}
	REF.queue_ran_empty = rq_n == 0;
	for(unsigned i = 0; i < n; ++i)
		REF.lp[i].final_digest = vm_digest((ref_me = i), REF.lp[i].state);
	while(rq_n)
		free(rq_pop());
	vm_env = saved;
	current_lp = saved_lp;
}

void ref_free(void)
{
	for(unsigned i = 0; i < VM.n_lps; ++i) {
		free(REF.lp[i].ev);
		REF.lp[i].ev = NULL;
	}
}
