"""C19: topology queries are mutually consistent and rollback-safe (pure).
Oracle: cross-checks between GetReceiver / IsNeighbor / CountDirections over a size box for all eight geometries,
and replay of (generator state, query) pairs in other orders and on several threads against a baseline."""
import os
import vlib


def run(tier, seed):
    chk = vlib.Check("C19", tier, seed)
    src = [os.path.join(vlib.VERIF, "engines", "topo.c"), os.path.join(vlib.VERIF, "hooks", "vhook_stub.c")]
    B, Bn = (8, 40) if tier == "quick" else (40, 400)
    cases = []
    for fl in ("asan", "asan-ndebug"):  # asan-ndebug: the no-neighbour DIRECTION_RANDOM case is only queried there
        exe = vlib.build_engine("topo", src, flavour=fl)
        cases.append(([exe, "box", str(B), str(Bn), str(seed)], "%s/box" % fl))
        for k in range(3 if tier == "quick" else 10):
            thr = (4, 2, 8)[k % 3] if tier == "quick" else (12, 4, 2, 8)[k % 4]
            cases.append(([exe, "pure", str(thr), str(20000 if tier == "quick" else 200000), str(seed * 100 + k)], "%s/pure/%d" % (fl, k)))
    for res in vlib.run_cases(cases, parallel=4, timeout=900):
        rec, anomaly = vlib.absorb(chk, res)
        if anomaly:
            if anomaly.startswith("san:"):
                chk.violation("sanitizer:" + anomaly[4:], res.err[-1500:], {"cmd": res.cmd})
            else:
                chk.inconc("%s on %s: %s" % (anomaly, res.tag, res.err[-300:]))
    chk.distinct = chk.stats.get("border_cells", 0) + chk.stats.get("degenerate_topologies", 0)
    chk.exhaustive = True
    chk.rule = ("box: every geometry x every size (grids w,h in 1..%d; ring/bidring/star/mesh/graph with 1..%d regions) x every source region x "
                "every fixed direction + DIRECTION_RANDOM (exhaustive over the box); purity: lists of (generator state, geometry, source) "
                "replayed in random order with unrelated calls in between, on 1 and on 2..12 threads, against a single-thread baseline; "
                "non-trivial = border/corner cell of a grid or degenerate topology (1xN, Nx1, <=2 regions); distinct = (geometry,size,from)" % (B, Bn))
    chk.assumptions = ["DIRECTION_RANDOM on a grid region without any neighbour aborts on an assert in debug builds by design: queried in the NDEBUG flavour only",
                       "graph: expected CountDirections = number of distinct links added from the region"]
    return chk.finish(min_evals=10000, require={"purity_replays": 10000, "regions_without_neighbour": 1, "border_cells": 100})
