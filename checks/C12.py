"""C12: rollbackable allocator returns valid, disjoint, stable blocks."""
import vlib
import alloc_common


def run(tier, seed):
    chk = vlib.Check("C12", tier, seed)
    alloc_common.run_alloc(chk, tier, seed, small_depth=5 if tier == "quick" else 6)
    chk.distinct = chk.stats.get("nontrivial_histories", 0)
    chk.rule = ("one case = one seeded history of 2500-5000 rs_malloc/rs_calloc/rs_realloc/rs_free/write operations interleaved with checkpoints, "
                "rollbacks (restore + re-execution) and fossil collections, on 64 KiB arenas and on a 2 KiB-arena build; after every operation the "
                "shadow model checks placement, alignment, length, disjointness, content of every live block and the allocation map read from the "
                "real longest[] trees; plus ALL malloc/free/checkpoint/rollback sequences up to the depth bound on the 2 KiB arena (exhaustive over "
                "that bounded space only); non-trivial history = had a restore to a non-checkpoint target, an arena created after a checkpoint and a "
                "restore right after a fossil collection (enumerated sequences all count); distinct by seed / sequence")
    chk.assumptions = ["sizes drawn from laws around powers of two, 1..64, 64 KiB, 0 and > 64 KiB; allocation failure of the host malloc is not injected"]
    return chk.finish(min_evals=20, require={"operations": 100000, "reuse_probes_after_free": 1000, "calloc_blocks_checked": 100,
                                             "realloc_moved": 100, "bad_size_requests": 10, "enumerated_sequences": 1000})
