"""C03: committed history is exactly a prefix of the sequential history.
Oracle: every history entry released by fossil collection, and every entry still held at shutdown with timestamp below the
thread's last GVT, is compared in order (timestamp, type, size, payload hash) with the next event the independent reference
executor delivers to that LP."""
import vlib
import sim_common


def run(tier, seed):
    chk = vlib.Check("C03", tier, seed)
    n = 90 if tier == "quick" else 800
    cases = sim_common.make_cases("C03", tier, seed, n, variants=(0, 1, 0, 2, 0, 1), fp_levels=(1, 10, 2, 3, 10), sizes=(0, 0, 1), burst=5, stateless=9,
                                  gvts=[0, 0, 20, 300, 0, 1000, 50], ckpts=[1, 2, 3, 1, 5, 0, 2, 7])
    sim_common.run_sim_cases(chk, cases, timeout=300)
    chk.rule = ("one case = (generated model, threads, checkpoint interval 1..7/auto so the cut lands at / before / after the GVT boundary, GVT period "
                "0..1000 us, perturbation seed), runs ended by predicates, by a termination time and by RootsimStop(); every committed event is one "
                "comparison; non-trivial = rollbacks + anti-messages occurred; distinct = schedule signature")
    chk.assumptions = ["the reference is run past the sequential end point; commits beyond its horizon are counted (commits_beyond_reference_horizon) and not compared"]
    return chk.finish(min_evals=20, require={"committed_events_checked": 50000, "fossil_collections": 500, "committed_at_shutdown_checked": 100,
                                             "runs_variant_1": 5, "runs_variant_2": 5, "rollbacks": 100})
