"""C20: statistics output is well-formed and consistent with what happened.
Oracle: an independent reader of the documented binary layout + the shipped RSStats parser on the file of a real run; per thread
and per record the counters must equal the number of hook events (forward execution done, rollback end, undone event, silent
execution, checkpoint, cancelled send) observed on that thread between its consecutive GVT-consumed points."""
import os
import re
import struct
import subprocess
import sys
import vlib
import sim_common
import mpi_common

NAMES = ["processed messages", "processed messages time", "rollbacks", "recovery time", "rolled back messages", "checkpoints", "checkpoints time",
         "checkpoints size", "silent messages", "silent messages time", "anti messages", "gvt real time"]


def parse(path):
    """Own implementation of the documented layout (little endian host)."""
    d = open(path, "rb").read()
    o = 0

    def rd(fmt):
        nonlocal o
        sz = struct.calcsize(fmt)
        if o + sz > len(d):
            raise ValueError("truncated at %d" % o)
        v = struct.unpack_from(fmt, d, o)
        o += sz
        return v
    magic, = rd("<H")
    if magic != 61455:
        raise ValueError("bad magic %d" % magic)
    n, = rd("<q")
    names = []
    for _ in range(n):
        l, = rd("<B")
        names.append(d[o:o + l].decode())
        o += l
    nodes, = rd("<q")
    out = []
    for _ in range(nodes):
        g = rd("<9Q")
        sz, = rd("<q")
        if sz % 16:
            raise ValueError("node stats size %d not a multiple of 16" % sz)
        node = [rd("<dQ") for _ in range(sz // 16)]
        thr = []
        for _ in range(g[0]):
            sz, = rd("<q")
            if sz % (8 * n):
                raise ValueError("thread stats size %d not a multiple of %d" % (sz, 8 * n))
            thr.append([rd("<%dQ" % n) for _ in range(sz // (8 * n))])
        out.append((g, node, thr))
    if o != len(d):
        raise ValueError("garbage at the end: %d of %d bytes consumed" % (o, len(d)))
    return names, out


def run(tier, seed):
    chk = vlib.Check("C20", tier, seed)
    os.makedirs(os.path.join(vlib.BUILD, "stats"), exist_ok=True)
    n = 100 if tier == "quick" else 1000
    cases = sim_common.make_cases("C20", tier, seed, n, variants=(0, 0, 1, 0), fp_levels=(2, 10, 3, 1), sizes=(0, 0, 1), stats=True,
                                  threads=[1, 2, 3, 4, 8, 2, 12, 5], gvts=[0, 20, 1000, 100000, 300, 5000, 200])
    recs = sim_common.run_sim_cases(chk, cases, timeout=300, retries=0)
    shipped = os.path.join(vlib.REPO, "src", "log", "parse", "rootsim_stats.py")
    counters = {"files": 0, "recs": 0}

    def compare(tag, cmd, path, outs):
        """outs: the engine output of every node (rank) of the run, in node order."""
        if not os.path.exists(path):
            chk.violation("stats-file-missing", "run %s asked for statistics but produced no file" % tag, {"cmd": cmd})
            return
        try:
            names, nodes = parse(path)
        except (ValueError, struct.error) as e:
            chk.violation("stats-file-malformed", "run %s: independent reader rejects the file: %s" % (tag, e), {"cmd": cmd})
            os.remove(path)
            return
        counters["files"] += 1
        # columns are looked up by the names the file itself declares (a new metric or another order is not a violation)
        need = {"processed messages": None, "rollbacks": None, "rolled back messages": None, "silent messages": None, "checkpoints": None, "anti messages": None}
        for nm in need:
            if nm not in names:
                chk.violation("stats-metric-missing", "run %s: the file declares no metric named %r (has %s)" % (tag, nm, names), {"cmd": cmd})
                os.remove(path)
                return
            need[nm] = names.index(nm)
        iF, iR, iU, iS, iC, iA = (need[k] for k in ("processed messages", "rollbacks", "rolled back messages", "silent messages", "checkpoints", "anti messages"))
        p = subprocess.run([sys.executable, "-c", "import sys; sys.path.insert(0, %r); import rootsim_stats; rootsim_stats.RSStats(%r)" % (os.path.dirname(shipped), path)],
                           stdout=subprocess.PIPE, stderr=subprocess.PIPE, text=True)
        if p.returncode != 0:
            chk.violation("shipped-parser-rejects", "run %s: %s" % (tag, p.stderr[-300:]), {"cmd": cmd})
        if len(nodes) != len(outs):
            chk.violation("node-count", "run %s: file holds %d nodes, the run had %d" % (tag, len(nodes), len(outs)), {"cmd": cmd})
        for ni, ((g, node, thr), out) in enumerate(zip(nodes, outs)):
            wins = {}
            for m in re.finditer(r"^WIN (\d+) (\d+) (\S+) (\d+) (\d+) (\d+) (\d+) (\d+) (\d+)$", out, re.M):
                t, k = int(m.group(1)), int(m.group(2))
                wins.setdefault(t, {})[k] = (float.fromhex(m.group(3)),) + tuple(int(x) for x in m.groups()[3:])
            counts = [len(t) for t in thr]
            if any(cn != len(node) for cn in counts):
                chk.violation("record-counts-differ", "run %s node %d: node has %d records, threads have %s" % (tag, ni, len(node), counts), {"cmd": cmd, "node": len(node), "threads": counts})
            prev = -1.0
            for k, (gvt, rss) in enumerate(node):
                if gvt < prev:
                    chk.violation("gvt-column-decreases", "run %s node %d: record %d has GVT %r after %r" % (tag, ni, k, gvt, prev), {"cmd": cmd})
                prev = gvt
            for t, recs_t in enumerate(thr):
                cum_f = cum_u = 0
                w = wins.get(t, {})
                if len(w) != len(recs_t):
                    chk.violation("records-vs-gvt-values-consumed", "run %s node %d: thread %d completed %d reductions, its statistics hold %d records" % (tag, ni, t, len(w), len(recs_t)), {"cmd": cmd})
                for k, r in enumerate(recs_t):
                    counters["recs"] += 1
                    cum_f += r[iF]
                    cum_u += r[iU]
                    if cum_u > cum_f:
                        chk.violation("undone-exceeds-forward", "run %s node %d: thread %d record %d: cumulative undone %d > forward %d" % (tag, ni, t, k, cum_u, cum_f), {"cmd": cmd})
                    if k in w:
                        gv, fwd, rb, und, sil, ck, anti = w[k]
                        got = (r[iF], r[iR], r[iU], r[iS], r[iC], r[iA])
                        want = (fwd, rb, und, sil, ck, anti)
                        if got != want:
                            chk.violation("record-differs-from-observed-events", "run %s node %d: thread %d record %d reports (forward, rollbacks, undone, silent, checkpoints, anti) = %s, the hooks observed %s" % (tag, ni, t, k, got, want), {"cmd": cmd})
                        if k < len(node) and node[k][0] != gv:
                            chk.violation("gvt-column-differs-from-gvt-told", "run %s node %d: record %d GVT %r, thread %d was told %r" % (tag, ni, k, node[k][0], t, gv), {"cmd": cmd})
        os.remove(path)

    for c, res, rec, anomaly in recs:
        path = c["stats"] + ".bin"
        if anomaly or not rec["ok"] or "models_rejected" in rec["stats"]:
            if os.path.exists(path):
                os.remove(path)
            continue
        compare(res.tag, res.cmd, path, [res.out])
    # multi-rank runs: the records of the other ranks travel through mpi_blocking_data_send/_rcv into the same file
    chk.soft_fraction = 0.3
    mcases = mpi_common.make_cases("C20", tier, seed, 8 if tier == "quick" else 60, variants=(0,), fault_rates=(0,), layouts=[(2, 2), (2, 1), (3, 2), (2, 3)])
    for c in mcases:
        c["stats"] = os.path.join(vlib.BUILD, "stats", "C20m_%d_%d" % (os.getpid(), c["k"]))
    for c, res, texts, anomaly in mpi_common.run_mpi_cases(chk, mcases, timeout=30 if tier == "quick" else 90, retries=0):
        path = c["stats"] + ".bin"
        if anomaly or not all("OK sim" in t for t in texts) or any("models_rejected" in t for t in texts):
            if os.path.exists(path):
                os.remove(path)
            continue
        compare(res.tag, res.cmd, path, texts)
        chk.stats["multi_rank_stats_files"] = chk.stats.get("multi_rank_stats_files", 0) + 1
    files, recs_checked = counters["files"], counters["recs"]
    chk.stats["stats_files_parsed"] = files
    chk.stats["records_checked"] = recs_checked
    chk.rule = ("one case = a parallel run with a statistics file (threads 1..12, GVT period 0..100 ms so runs have zero, one and many records, predicate and "
                "termination-time endings, failpoint after the GVT block); every per-thread record is one comparison with the hook-event counts of its "
                "window; non-trivial / distinct as C01")
    chk.assumptions = ["time and size columns are not checked (no independent source)"]
    return chk.finish(min_evals=20, require={"stats_files_parsed": 20, "records_checked": 500, "rollbacks": 100, "multi_rank_stats_files": 2})
