"""C05: rollback restores the exact LP state (checkpoint restore + coast forward).
Oracle B (allocator engine): shadow model holding, per checkpoint, the live set and a copy of every block; after each
restore the real allocation map and every live byte must equal the snapshot, after re-executing the logged operations
the state must equal the one that existed at the target (addresses excluded). Oracle A (sim engine) is added when available."""
import vlib
import alloc_common

try:
    import sim_common
except ImportError:
    sim_common = None


def run(tier, seed):
    chk = vlib.Check("C05", tier, seed)
    alloc_common.run_alloc(chk, tier, seed, small_depth=4 if tier == "quick" else 5)
    if sim_common is not None:
        sim_common.run_sim_for(chk, "C05", tier, seed)
    chk.distinct = chk.stats.get("nontrivial_histories", 0) + len(chk.sigs)
    chk.rule = ("allocator engine: seeded histories (malloc/calloc/realloc/free/write, sizes 1..64 KiB around powers of two) with checkpoints at "
                "arbitrary positions and rollbacks to targets at / between / before checkpoints, repeated rollbacks, growth to tens of arenas after "
                "the restored checkpoint; the state after restore is compared byte-for-byte and map-for-map with the shadow snapshot and after "
                "coasting forward with the state that existed at the target (block addresses excluded: re-execution may legitimately place blocks "
                "in arenas created later); non-trivial as for C12/C13; distinct by seed")
    chk.assumptions = ["pointer values stored inside model state are not compared (re-executed allocations may land at other addresses: counted as "
                       "coast_forward_address_divergences, not a violation)"]
    return chk.finish(min_evals=20, require={"rollback_state_digests_checked": 1000, "rollbacks_coast_many": 50, "rollbacks_coast_0": 10, "restores": 1000, "restores_to_non_checkpoint_target": 500, "arenas_created_after_a_checkpoint": 100, "coast_forward_ops": 1000})
