"""C01: parallel (multi-thread) results equal the sequential execution.
Oracle: per-LP state digest at LP_FINI of frozen models vs the independent reference executor's state at the point the
predicate first held; plus (online) the state after every rollback and the committed prefix, from the shared monitors."""
import vlib
import sim_common


def run(tier, seed):
    chk = vlib.Check("C01", tier, seed)
    n = 100 if tier == "quick" else 600
    flav = ("asan",) if tier == "quick" else ("asan", "asan", "asan-ndebug")
    cases = sim_common.make_cases("C01", tier, seed, n, variants=(0,), fp_levels=(1, 2, 3, 10, 2, 10), sizes=(0, 0, 1, 0, 1) if tier == "quick" else (0, 1, 1, 0, 1, 2, 0, 1), flavours=flav, stateless=9)
    # a slice with every-event checkpoints, back-to-back GVT rounds and the serialized scheduler: fossil collection right behind the
    # LP's frontier, the situation in which a wrongly committed event shows up in the final state
    for i, c in enumerate(cases):
        if i % 4 == 1:
            c["ckpt"], c["gvt"], c["fp"] = 1, 0, 10
            c["env"] = {"VM_FORCE_TS": str((3, 0, 3, 2)[(i // 4) % 4])}
            if c["env"]["VM_FORCE_TS"] == "3":
                c["env"]["VM_FORCE_RNG"] = "0"   # bursts of simultaneous events need the grid timestamps
    sim_common.run_sim_cases(chk, cases, timeout=300)
    chk.rule = ("one case = (generated model, threads 1..16 incl. more threads than LPs, checkpoint interval auto/1/2/3/5/7/64, GVT period 0..100 ms, "
                "perturbation seed, failpoint level); the model family has timestamp ties, bounded zero-delay chains, payloads 0..300 bytes, fan-out, "
                "dynamic memory up to 64 KiB blocks, library RNG, skewed LP speeds; non-trivial = at least one rollback with coasting forward and one "
                "anti-message; distinct = schedule signature (hash of per-LP (rollback position, depth, coast length) sequences)")
    chk.assumptions = ["models freeze an LP once its predicate holds (premise of C01); ties are resolved by the runtime's own comparator in the reference"]
    return chk.finish(min_evals=20, require={"c01_lps_compared": 100, "rollbacks": 100, "local_antimessages": 100, "rollbacks_coast_many": 10,
                                             "stragglers_with_equal_timestamp": 1, "rollback_state_digests_checked": 100})
