"""C18: numerical library contracts hold for every generator state.
Oracle: range/finiteness/isolation assertions + UBSan on the real library functions, with the calling LP's
generator crafted so that its next 1..3 raw outputs are boundary values, plus random states."""
import os
import re
import vlib


def run(tier, seed):
    chk = vlib.Check("C18", tier, seed)
    src = [os.path.join(vlib.VERIF, "engines", "num.c"), os.path.join(vlib.VERIF, "hooks", "vhook_stub.c")]
    cases = []
    for fl in (("asan",) if tier == "quick" else ("asan", "asan-ndebug")):
        exe = vlib.build_engine("num", src, flavour=fl)
        for k in range(2 if tier == "quick" else 6):
            cases.append(([exe, "crafted", str(seed * 10 + k)], "%s/crafted/%d" % (fl, k)))
        nrand = 14 if tier == "quick" else 48
        per = 100000 if tier == "quick" else 2000000
        for k in range(nrand):
            cases.append(([exe, "random", str(per), str(seed * 1000 + k)], "%s/random/%d" % (fl, k)))
    for res in vlib.run_cases(cases, parallel=16, timeout=900):
        rec, anomaly = vlib.absorb(chk, res)
        if anomaly:
            m = re.search(r"ABORTED-IN-CASE (.*)", res.out)
            case = m.group(1) if m else "?"
            if anomaly.startswith("san:"):
                chk.violation("sanitizer:" + anomaly[4:], "in case %s :: %s" % (case, res.err[:1200]), {"cmd": res.cmd, "case": case})
            elif anomaly == "timeout":
                chk.inconc("timeout on %s (last case unknown)" % res.tag)
            else:
                chk.inconc("%s on %s: case %s %s" % (anomaly, res.tag, case, res.err[-300:]))
    chk.distinct = chk.stats.get("crafted_states", 0)
    chk.rule = ("one case = (function, arguments, generator state of the calling LP); crafted cases solve the xoshiro256** recurrence "
                "so the next raw output (or the 2nd / 3rd) is one of 0,1,2,3, 2^k-1, 2^k, 2^k+1 (k=1..63), values around the 52-bit mantissa cut, "
                "2^64-1 and neighbours, and all triples of a 13-value set for the next three outputs; each crafted state is verified by stepping "
                "the real recurrence; random cases draw all four state words uniformly; non-trivial = crafted to a boundary output; "
                "distinct = (function, chosen outputs, free word)")
    chk.assumptions = ["argument domains: RandomRange with max-min+1 representable as int; RandomRangeNonUniform 0<=min<=max<INT_MAX, x>=0 "
                       "(the domain the shipped test uses); Zipf skew>1; Gamma order 1..1000",
                       "the all-zero generator state (unreachable fixed point) is not explored"]
    return chk.finish(min_evals=10000, require={"crafted_states": 5000, "calls_Random": 1000, "calls_Gamma_large": 1000, "calls_Zipf": 1000})
