"""C02: distributed (multi-node MPI) results equal the sequential execution.
Oracle: as C01, each rank checking the LPs it hosts against the reference executor, the driver checking that the ranks
together reported every LP exactly once; real OpenMPI (mpiexec -n R), PMPI shim injecting only legal delays."""
import vlib
import mpi_common


def run(tier, seed):
    chk = vlib.Check("C02", tier, seed)
    chk.soft_fraction = 0.5   # MPI runs that stall in the main loop (speculative flood, see DESIGN.md 10) are individually inconclusive
    n = 30 if tier == "quick" else 350
    cases = mpi_common.make_cases("C02", tier, seed, n, variants=(0,), burst=5)
    recs = mpi_common.run_mpi_cases(chk, cases, timeout=30 if tier == "quick" else 90)
    hangs = [a for _, _, _, a in recs if a and a.startswith("hang:")]
    chk.stats["shutdown_hangs_classified_as_C08"] = len(hangs)
    chk.rule = ("one case = (generated model, ranks x threads in {2x1,2x2,3x2,4x2,2x4,3x1,4x1,2x3}, checkpoint interval, GVT period, perturbation seed, "
                "MPI delay rate): sender skew before MPI_Isend, receiver skew after MPI_Mrecv (an anti-message is queued before the event it cancels), "
                "MPI_Improbe answering 'nothing pending', MPI_Test answering 'not complete'; non-trivial = at least one remote anti-message and the "
                "run had rollbacks; distinct = schedule signature per rank")
    chk.assumptions = ["the real MPI library keeps matching and ordering semantics: only delays MPI permits are injected",
                       "all ranks run on one host (shared-memory transport)"]
    return chk.finish(min_evals=10, require={"remote_sends": 1000, "remote_antimessages_sent": 50, "c01_lps_compared": 50,
                                             "remote_anti_found_in_history": 1, "remote_anti_parked_early": 1})
