"""C16: event order is a strict weak order with content-only tie-break.
Oracle: the axioms evaluated on the real comparator over all triples of a pool + content-only twins."""
import os
import vlib


def run(tier, seed):
    chk = vlib.Check("C16", tier, seed)
    pool = 150 if tier == "quick" else 700
    cases = []
    for fl in ("asan", "asan-ndebug"):   # both lp_msg layouts (debug fields present / absent)
        exe = vlib.build_engine("order", [os.path.join(vlib.VERIF, "engines", "order.c")], flavour=fl, link_core=False)
        for k in range(2 if tier == "quick" else 6):
            cases.append(([exe, str(pool), str(seed * 1000 + k)], "%s/%d" % (fl, k)))
    # second part: the order the real per-thread queue (its own comparator built on the relation) hands tie groups out in
    qsrc = [os.path.join(vlib.VERIF, "engines", "qorder.c"), os.path.join(vlib.VERIF, "hooks", "vhook_stub.c")]
    for fl in ("asan", "asan-ndebug"):
        qexe = vlib.build_engine("qorder", qsrc, flavour=fl)
        for k in range(4 if tier == "quick" else 16):
            cases.append(([qexe, "400" if tier == "quick" else "3000", str(seed * 1000 + 500 + k)], "q-%s/%d" % (fl, k)))
    for res in vlib.run_cases(cases, parallel=8, timeout=600):
        rec, anomaly = vlib.absorb(chk, res)
        if anomaly:
            if anomaly.startswith("san:"):
                chk.violation("sanitizer:" + anomaly[4:], res.err[-1500:], {"cmd": res.cmd})
            else:
                chk.inconc("%s on %s: %s" % (anomaly, res.tag, res.err[-300:]))
    # distinct non-trivial = triples containing at least two equal timestamps (measured by the engine)
    n = chk.stats.get("triples_with_equal_timestamps", 0)
    chk.distinct = n
    chk.rule = ("pool of events over timestamps {0,1,1+ulp,2}, flags {0,ANTI,PROCESSED,id bits}, types {0,1,2,LP_INIT,max}, "
                "sizes {0,1,8,32,33,40,64}, payload alphabets {00,01,7f,80,ff} differing at first/last/beyond-32 byte; ALL ordered "
                "triples of the pool are evaluated (exhaustive over the pool); non-trivial = triple of three different pool "
                "events with at least two equal timestamps; distinct = index triple (pool is de-duplicated by content)")
    chk.rule += ("; queue part: groups of 3-7 pairwise different events, mostly at one timestamp, pushed through the real msg_queue in every arrival "
                 "order (groups up to 5) or 60 random ones, with random destination LPs and buffer addresses: the extraction sequence must respect the "
                 "relation and be the same content sequence every time")
    chk.exhaustive = True
    rc = chk.finish(min_evals=1000, require={"triples_with_equal_timestamps": 1000, "twin_comparisons": 1000, "incomparable_pairs": 1,
                                              "queue_groups_with_three_or_more_ties": 100, "queue_arrival_orders": 10000})
    return rc
