"""Shared driver for the allocator engine (serves C12, C13 and oracle B of C05)."""
import os
import vlib

SRC = [os.path.join(vlib.VERIF, "engines", "alloc.c"), os.path.join(vlib.VERIF, "hooks", "vhook_stub.c")]


def alloc_cases(tier, seed, small_depth=None):
    cases = []
    flavours = ("asan",) if tier == "quick" else ("asan", "asan-ndebug")
    for fl in flavours:
        exe = vlib.build_engine("alloc", SRC, flavour=fl)
        nproc = 16 if tier == "quick" else 32
        nh, ops = (12, 2500) if tier == "quick" else (40, 5000)
        for k in range(nproc):
            cases.append(([exe, "hist", str(nh), str(ops), str(seed * 1000 + k)], "%s/hist/%d" % (fl, k)))
        # small arena (2 KiB, 32 leaves): random histories + exhaustive enumeration of short sequences
        exs = vlib.build_engine("alloc_small", SRC, flavour=fl, extra=["-DVERIF_B_TOTAL_EXP=11U"])
        for k in range(4 if tier == "quick" else 16):
            cases.append(([exs, "hist", str(nh * 3), str(ops), str(seed * 1000 + 500 + k)], "%s/small-hist/%d" % (fl, k)))
        if small_depth:
            cases.append(([exs, "enum", str(small_depth)], "%s/small-enum/%d" % (fl, small_depth)))
    return cases


def run_alloc(chk, tier, seed, small_depth=None):
    cases = alloc_cases(tier, seed, small_depth)
    for res in vlib.run_cases(cases, parallel=16, timeout=(240 if tier == "quick" else 1500)):
        rec, anomaly = vlib.absorb(chk, res)
        if anomaly:
            if anomaly.startswith("san:"):
                # a sanitizer report inside the allocator while the shadow model drives it: checkpoint sizing / tree errors
                chk.violation("sanitizer:" + anomaly[4:], res.err[:1500], {"cmd": res.cmd})
            elif anomaly == "timeout":
                chk.inconc("timeout on %s" % res.tag)
            else:
                chk.inconc("%s on %s: %s" % (anomaly, res.tag, (res.out[-200:] + res.err[-300:])))
