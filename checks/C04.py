"""C04: GVT is a monotone, safe lower bound.
Oracle (online, per thread): GVT values never decrease; after being told g a thread never extracts a message below g, never
undoes an event below g, never reclaims an event at/above the GVT used, finds no message below g in its queue at shutdown;
offline: the k-th value is the same on every thread."""
import vlib
import sim_common


def run(tier, seed):
    chk = vlib.Check("C04", tier, seed)
    n = 110 if tier == "quick" else 1000
    cases = sim_common.make_cases("C04", tier, seed, n, variants=(0, 0, 0, 1), fp_levels=(3, 10, 2, 10, 3, 1, 10), sizes=(0, 0, 1), burst=5,
                                  gvts=[0, 0, 20, 0, 50, 200], threads=[2, 3, 4, 8, 2, 12, 4, 6, 16])
    sim_common.run_sim_cases(chk, cases, timeout=300)
    chk.rule = ("one case = (generated model, 2..16 threads, GVT period 0/20/50/200 us = back-to-back rounds, failpoints between the thread phases of the "
                "reduction, between load and CAS of the queue insert, after extraction, after flag updates); every extraction, undone event, reclaimed "
                "history entry and queue leftover is one online check against the last GVT told to that thread; non-trivial / distinct as C01")
    chk.assumptions = ["single node: in-flight means in the inter-thread buffers or extracted-not-yet-processed; MPI flight is covered by the mpi engine (C02)"]
    return chk.finish(min_evals=20, require={"gvt_values_consumed": 3000, "extractions": 100000, "undone_events": 1000, "fossil_entries_released": 10000,
                                             "messages_left_in_queues_at_shutdown": 10})
