"""C17: thread barrier - nobody passes early, exactly one leader, reusable.
Oracle: per-use arrival counters incremented immediately before the call and leader counters, on the real
sync_thread_barrier() used 10^5..10^6 consecutive times with skewed arrivals and failpoints inside the spin loops;
state-based watchdog for stalls."""
import os
import vlib

SRC = [os.path.join(vlib.VERIF, "engines", "barrier.c")]


def run(tier, seed):
    chk = vlib.Check("C17", tier, seed)
    exe = vlib.build_engine("barrier", SRC, flavour="plain")
    exa = vlib.build_engine("barrier", SRC, flavour="asan")
    cases = []
    threads = [1, 2, 3, 4, 5, 7, 8, 12, 16]
    n = 18 if tier == "quick" else 63
    for k in range(n):
        t = threads[k % len(threads)]
        law = (k // len(threads) + k) % 4
        uses = (60000 if tier == "quick" else 300000) // (4 if law == 3 else 1) // (3 if t > 8 else 1)
        e = exe if k % 2 else exa
        cases.append({"cmd": [e, str(t), str(uses), str(law), str(seed * 1000 + k)], "tag": "N=%d/law=%d" % (t, law), "w": t})
    results, batch, weight = [], [], 0
    for c in cases:
        if weight + c["w"] > 16 and batch:
            results += vlib.run_cases(batch, parallel=len(batch), timeout=600)
            batch, weight = [], 0
        batch.append(c)
        weight += c["w"]
    if batch:
        results += vlib.run_cases(batch, parallel=len(batch), timeout=600)
    for res in results:
        rec, anomaly = vlib.absorb(chk, res)
        if anomaly:
            if anomaly.startswith("san:"):
                chk.violation("sanitizer:" + anomaly[4:], res.err[:1500], {"cmd": res.cmd})
            elif anomaly == "timeout":
                chk.inconc_case("wall-clock backstop fired on %s (the state-based watchdog did not declare a stall)" % res.tag)
            else:
                chk.inconc("%s on %s: %s" % (anomaly, res.tag, res.err[-300:]))
    chk.rule = ("one case = (threads 1..16, consecutive uses, arrival-delay law, seed); laws: none / random spins before arrival / one slow thread "
                "rotating / yields and usleeps inside both spin loops; non-trivial = at least one thread entered use k+1 before another thread "
                "had left use k (measured through the enter/exit hooks); distinct = (threads, law, seed)")
    chk.assumptions = ["memory visibility across the barrier is not claimed (exits are relaxed loads)",
                       "a stall is declared only when no use completes over 100 samples while every unfinished thread is inside the barrier"]
    return chk.finish(min_evals=8, require={"barrier_uses": 50000, "uses_entered_before_previous_use_fully_left": 100, "injected_spin_delays": 100})
