"""C15: inter-thread message queue loses nothing and its peek is a true lower bound.
Oracle: offline checker over histories recorded at the harness boundary (one logical clock, unique ids), on the real
msg_queue.c with failpoints between the load and the CAS; ThreadSanitizer build of the same harness for the
release/acquire publication of the payload."""
import os
import vlib

SRC = [os.path.join(vlib.VERIF, "engines", "queue.c")]


def run(tier, seed):
    chk = vlib.Check("C15", tier, seed)
    exe = vlib.build_engine("queue", SRC, flavour="asan")
    exp = vlib.build_engine("queue", SRC, flavour="plain")
    ext = vlib.build_engine("queue_tsan", SRC, flavour="tsan", extra=["-DQ_TSAN"])
    cases = []
    layouts = [(2, 1), (3, 1), (4, 2), (6, 2), (8, 3), (12, 2), (12, 4), (5, 5), (16, 1)]
    n = 40 if tier == "quick" else 400
    ops = 30000 if tier == "quick" else 60000
    for k in range(n):
        t, c = layouts[k % len(layouts)]
        e = exe if k % 3 else exp
        cases.append({"cmd": [e, "run", str(t), str(c), str(ops), str(k % 3), str(seed * 10000 + k)], "tag": "run/%d" % k, "w": t})
    nt = 12 if tier == "quick" else 100
    for k in range(nt):
        t, c = layouts[k % len(layouts)]
        cases.append({"cmd": [ext, "run", str(min(t, 8)), str(c), str(8000 if tier == "quick" else 20000), str(k % 3), str(seed * 10000 + 5000 + k)], "tag": "tsan/%d" % k, "w": t})
    # run in groups so that at most ~16 threads spin at once
    results = []
    batch, weight = [], 0
    for c in cases:
        if weight + c["w"] > 16 and batch:
            results += vlib.run_cases(batch, parallel=len(batch), timeout=300)
            batch, weight = [], 0
        batch.append(c)
        weight += c["w"]
    if batch:
        results += vlib.run_cases(batch, parallel=len(batch), timeout=300)
    tsan_runs = 0
    for res in results:
        rec, anomaly = vlib.absorb(chk, res)
        if res.tag.startswith("tsan") and rec["ok"]:
            tsan_runs += 1
        if anomaly:
            if anomaly.startswith("san:"):
                key = anomaly[4:]
                # a data race between payload writer and reader = the queue does not publish the message
                chk.violation("sanitizer:" + key, res.err[:2500], {"cmd": res.cmd})
            elif anomaly == "timeout":
                chk.inconc("timeout on %s" % res.tag)
            else:
                chk.inconc("%s on %s: %s" % (anomaly, res.tag, res.err[-300:]))
    chk.stats["tsan_histories_clean"] = tsan_runs
    chk.rule = ("one case = one multi-thread history (2..16 threads, 1..5 consumers, every thread inserts, consumers also extract and peek, bursts, "
                "timestamps continuous / dense ties / lattice, 10% cancelled entries, yield/spin failpoint between the head load and the CAS); "
                "non-trivial = at least one CAS retry and (for tie modes) at least one extraction with an equal-timestamp message pending; "
                "distinct = hash of the extraction order")
    chk.assumptions = ["real-time order is taken from one seq_cst logical clock read before the call and after the return at the harness boundary",
                       "TSan flavour uses a relaxed clock (no extra happens-before) and checks exactly-once + data-race freedom of the payload hand-over only"]
    return chk.finish(min_evals=10, require={"cas_retries": 10, "extractions_checked": 10000, "peeks_checked": 1000,
                                             "extractions_with_equal_timestamp_pending": 100, "buffer_swaps_nonempty": 100, "tsan_histories_clean": 3})
