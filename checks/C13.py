"""C13: fossil collection never discards what a legal rollback can need.
Oracle (allocator engine): after model_allocator_fossil_lp_collect the returned amount is the newest checkpoint <= target,
kept checkpoints are re-based consistently, and every later rollback (restore + re-execution) to any kept position
reproduces the shadow model's state. (Runtime part: see sim engine, added to this check when available.)"""
import vlib
import alloc_common

try:
    import sim_common
except ImportError:
    sim_common = None


def run(tier, seed):
    chk = vlib.Check("C13", tier, seed)
    alloc_common.run_alloc(chk, tier, seed)
    if sim_common is not None:
        sim_common.run_sim_for(chk, "C13", tier, seed)
    chk.distinct = chk.stats.get("nontrivial_histories", 0) + len(chk.sigs)
    chk.rule = ("allocator engine: seeded histories of allocator operations with checkpoints every 1..24 events, fossil collections at arbitrary "
                "targets between the oldest kept checkpoint and the current position, and rollbacks (restore + re-execution of logged operations) "
                "to arbitrary kept positions, including right after a collection and down to the oldest kept point; 64 KiB and 2 KiB arena builds; "
                "non-trivial history = restore to a non-checkpoint target + arena created after a checkpoint + restore right after a fossil collection")
    return chk.finish(min_evals=20, require={"rollbacks_right_after_fossil": 20, "fossil_collections": 500, "fossil_collections": 1000, "restores_right_after_fossil": 500, "restores_to_non_checkpoint_target": 500})
