"""C10: the serial runtime implements the reference semantics.
Oracle: per generated model, the dispatcher call sequence observed at the API boundary (per LP: content and state digest
after every event, LP_INIT/LP_FINI once, stop point) against the independent reference executor."""
import os
import vlib

SRC = [os.path.join(vlib.VERIF, "engines", "serial.c"), os.path.join(vlib.VERIF, "model", "vmodel.c"),
       os.path.join(vlib.VERIF, "model", "vcore_env.c"), os.path.join(vlib.VERIF, "hooks", "vhook_stub.c")]


def run(tier, seed):
    chk = vlib.Check("C10", tier, seed)
    cases = []
    flavours = ("asan", "asan-ndebug")
    per = 10 if tier == "quick" else 40
    nproc = 16 if tier == "quick" else 64
    for fi, fl in enumerate(flavours):
        exe = vlib.build_engine("serial", SRC, flavour=fl)
        for k in range(nproc):
            size = (0, 0, 1, 0, 1, 2 if tier != "quick" else 1)[k % 6]
            term = "1" if k % 4 == 3 else "0"
            first = seed * 1000000 + fi * 100000 + k * per
            # model family options outside the seed-to-model map: bursts of simultaneous events (chains of up to 12 zero-delay hops),
            # LPs that never call SetState() (library generator only)
            env = {"VM_FORCE_TS": "3", "VM_FORCE_RNG": "0"} if k % 8 == 5 else {"VM_STATELESS": "1", "VM_FORCE_RNG": "1"} if k % 8 == 6 else None
            if k % 2:
                env = dict(env or {}, VERIF_MALLOC_FILL="255")   # fresh heap memory reads as all-ones in every other process
            cases.append({"cmd": [exe, str(first), str(per), str(size), term], "tag": "%s/%d%s" % (fl, k, "" if not env else "/" + ",".join(sorted(env))), "env": env})
    for res in vlib.run_cases(cases, parallel=16, timeout=900):
        rec, anomaly = vlib.absorb(chk, res)
        if anomaly:
            if anomaly.startswith("san:"):
                chk.violation("sanitizer:" + anomaly[4:], res.err[:1500], {"cmd": res.cmd}, prop="C11")
                chk.inconc("sanitizer report (belongs to C11) on %s" % res.tag)
            elif anomaly == "timeout":
                chk.inconc("timeout on %s" % res.tag)
            else:
                chk.inconc("%s on %s: %s" % (anomaly, res.tag, (res.out[-200:] + res.err[-300:])))
    chk.rule = ("one case = one generated model (LPs 1..96, token population 1..3 per LP, timestamp law lattice-with-zero-delays / continuous / integer, "
                "destination law, payload 0..300 bytes with low entropy, dynamic memory, library RNG, events scheduled at init incl. timestamp 0) run "
                "through the serial runtime, stopped by predicates or by a termination time (GVT period 0); non-trivial = the reference run has "
                "timestamp ties, zero-delay sends or init-time sends; distinct = hash of the per-LP final states")
    chk.assumptions = ["the serial runtime evaluates an LP's predicate only after an event delivered to that LP (never at init); the reference stop point is computed with the same rule",
                       "events with the same (timestamp, type, size) as the stop event form a tolerance zone for the stop point"]
    return chk.finish(min_evals=20, require={"events_compared": 100000, "reference_tie_deliveries": 1000, "zero_delay_sends": 100, "termination_time_runs": 5})
