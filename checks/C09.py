"""C09: results are configuration-independent and repeatable; the library RNG replays after rollback.
Oracle (metamorphic): all runs of one (model, seed) - different thread counts, checkpoint intervals, GVT periods, repetitions -
form one equivalence class of per-LP final digests (digest includes the library generator words); each run is also compared
with the reference executor, which seeds its own copy of the streams from (seed, LP id) only."""
import os
import re
import vlib
import sim_common
import mpi_common


def run(tier, seed):
    chk = vlib.Check("C09", tier, seed)
    os.environ["VM_FORCE_RNG"] = "1"      # every decision of the model comes from Random()/RandomRange()/Expent()/Normal()/Gamma()/Zipf()
    try:
        models, per = (14, 8) if tier == "quick" else (60, 16)
        cases = sim_common.make_cases("C09", tier, seed, models * per, variants=(0,), fp_levels=(1, 10, 2, 3, 10), sizes=(0, 0, 1), same_model_group=per,
                                      threads=[1, 2, 3, 4, 8, 2, 12, 5, 16, 4], flavours=("asan",) if tier == "quick" else ("asan", "asan-ndebug"))
        # repetition: the last case of each group repeats the configuration of the first
        for i in range(0, len(cases), per):
            rep = dict(cases[i])
            rep["pseed"] = cases[i]["pseed"] + 999
            cases[i + per - 1] = rep
        for c in cases:
            c["env"] = {"VM_FORCE_DEST": "2", "VERIF_CORE_BINDING": "1"}   # same destination law as the multi-rank runs of the same models below
            if (c["mseed"] - cases[0]["mseed"]) % 2:
                c["env"]["VM_STATELESS"] = "1"   # every other model: a third of the LPs never call SetState() (the generator context is all their state)
        recs = sim_common.run_sim_cases(chk, cases, timeout=300)
    finally:
        del os.environ["VM_FORCE_RNG"]
    classes = {}

    def outcome(texts):
        d = {}
        for t in texts:
            for m in re.finditer(r"^LPD (\d+) ([0-9a-f]+)$", t, re.M):
                d[int(m.group(1))] = m.group(2)
        return ";".join("%d:%s" % kv for kv in sorted(d.items())) if d else None

    for c, res, rec, anomaly in recs:
        o = outcome([res.out])
        if o and not anomaly:
            classes.setdefault((c["mseed"], c["size"]), []).append((o, dict(c, ranks=1), res))
    # the same models on 2 and 3 ranks (RNG stream must not depend on the hosting rank)
    os.environ["VM_FORCE_RNG"] = "1"
    try:
        chk.soft_fraction = 0.35
        base = cases[0]["mseed"]
        mcases = mpi_common.make_cases("C09", tier, seed, 10 if tier == "quick" else 100, variants=(0,), fault_rates=(0, 40), model_base=base, same_model_group=2,
                                       layouts=[(2, 2), (3, 1), (2, 1), (3, 2)])
        for c in mcases:
            c["size"] = (0, 0, 1)[(c["mseed"] - base) % 3]   # same size class as the single-node runs of that model
            c["dest"] = 2
            if (c["mseed"] - base) % 2:
                c.setdefault("env", {})["VM_STATELESS"] = "1"
        for c, res, texts, anomaly in mpi_common.run_mpi_cases(chk, mcases, timeout=30 if tier == "quick" else 90, retries=0):
            o = outcome(texts)
            if o and not anomaly:
                classes.setdefault((c["mseed"], c["size"]), []).append((o, c, res))
                chk.stats["multi_rank_runs_in_classes"] = chk.stats.get("multi_rank_runs_in_classes", 0) + 1
    finally:
        del os.environ["VM_FORCE_RNG"]
    sizes = []
    for ms, lst in classes.items():
        sizes.append(len(lst))
        digs = {}
        for d, c, res in lst:
            digs.setdefault(d, []).append(c)
        if len(digs) > 1:
            cfgs = [{k: v[0].get(k) for k in ("ranks", "threads", "ckpt", "gvt", "pseed", "flavour")} for v in digs.values()]
            chk.violation("result-depends-on-configuration", "model %s: %d different outcomes over %d runs, e.g. configurations %s" % (ms, len(digs), len(lst), cfgs[:3]),
                          {"model_seed": ms, "outcomes": {d[:60]: [{k: c.get(k) for k in ("ranks", "threads", "ckpt", "gvt", "pseed", "fp", "flavour")} for c in v] for d, v in digs.items()}})
    chk.stats["equivalence_classes"] = len(classes)
    chk.stats["runs_in_classes"] = sum(sizes)
    chk.rule = ("one class = one generated model whose every decision comes from the library generator, run under %d configurations (threads 1..16, "
                "checkpoint interval auto/1..64, GVT period 0..100 ms, one exact repetition); non-trivial run = rollbacks with coasting forward happened "
                "(the stream had to be replayed); distinct = schedule signature" % per)
    chk.assumptions = ["core binding is switched on in half of the serialized (baton) runs only", "multi-rank runs share the host (one machine)"]
    return chk.finish(min_evals=20, require={"equivalence_classes": 5, "runs_with_core_binding": 2, "multi_rank_runs_in_classes": 2, "rollbacks": 100, "silent_executions": 1000, "c01_lps_compared": 100})
