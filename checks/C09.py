"""C09: results are configuration-independent and repeatable; the library RNG replays after rollback.
Oracle (metamorphic): all runs of one (model, seed) - different thread counts, checkpoint intervals, GVT periods, repetitions -
form one equivalence class of per-LP final digests (digest includes the library generator words); each run is also compared
with the reference executor, which seeds its own copy of the streams from (seed, LP id) only."""
import os
import re
import vlib
import sim_common


def run(tier, seed):
    chk = vlib.Check("C09", tier, seed)
    os.environ["VM_FORCE_RNG"] = "1"      # every decision of the model comes from Random()/RandomRange()/Expent()/Normal()/Gamma()/Zipf()
    try:
        models, per = (14, 8) if tier == "quick" else (240, 16)
        cases = sim_common.make_cases("C09", tier, seed, models * per, variants=(0,), fp_levels=(1, 2, 3), sizes=(0, 0, 1), same_model_group=per,
                                      threads=[1, 2, 3, 4, 8, 2, 12, 5, 16, 4], flavours=("asan",) if tier == "quick" else ("asan", "asan-ndebug"))
        # repetition: the last case of each group repeats the configuration of the first
        for i in range(0, len(cases), per):
            rep = dict(cases[i])
            rep["pseed"] = cases[i]["pseed"] + 999
            cases[i + per - 1] = rep
        recs = sim_common.run_sim_cases(chk, cases, timeout=300)
    finally:
        del os.environ["VM_FORCE_RNG"]
    classes = {}
    for c, res, rec, anomaly in recs:
        m = re.search(r"^RESULT (\d+) ([0-9a-f]+)$", res.out, re.M)
        if m:
            classes.setdefault(int(m.group(1)), []).append((m.group(2), c, res))
    sizes = []
    for ms, lst in classes.items():
        sizes.append(len(lst))
        digs = {}
        for d, c, res in lst:
            digs.setdefault(d, []).append(c)
        if len(digs) > 1:
            cfgs = [{k: v[0][k] for k in ("threads", "ckpt", "gvt", "pseed", "flavour")} for v in digs.values()]
            chk.violation("result-depends-on-configuration", "model %d: %d different outcomes over %d runs, e.g. configurations %s" % (ms, len(digs), len(lst), cfgs[:3]),
                          {"model_seed": ms, "outcomes": {d: [{k: c[k] for k in ("threads", "ckpt", "gvt", "pseed", "fp", "flavour")} for c in v] for d, v in digs.items()}})
    chk.stats["equivalence_classes"] = len(classes)
    chk.stats["runs_in_classes"] = sum(sizes)
    chk.rule = ("one class = one generated model whose every decision comes from the library generator, run under %d configurations (threads 1..16, "
                "checkpoint interval auto/1..64, GVT period 0..100 ms, one exact repetition); non-trivial run = rollbacks with coasting forward happened "
                "(the stream had to be replayed); distinct = schedule signature" % per)
    chk.assumptions = ["ranks are varied by the mpi engine (C02), not here", "core binding is not varied (it does not reach any code beyond thread affinity)"]
    return chk.finish(min_evals=20, require={"equivalence_classes": 5, "rollbacks": 100, "silent_executions": 1000, "c01_lps_compared": 100})
