"""Driver for the sim engine (single node, real parallel runtime + monitors)."""
import os
import re
import vlib

SRC = [os.path.join(vlib.VERIF, "engines", "sim.c"), os.path.join(vlib.VERIF, "model", "vmodel.c"),
       os.path.join(vlib.VERIF, "model", "vcore_env.c"), os.path.join(vlib.VERIF, "hooks", "vhook.c")]

THREADS = [2, 3, 4, 2, 8, 3, 12, 5, 2, 4, 16, 1]
CKPT = [0, 1, 2, 3, 5, 7, 64, 0, 1, 3]
GVT = [0, 20, 1000, 100000, 300, 0, 1000, 50]


def sim_exe(flavour="asan", transport="nompi"):
    return vlib.build_engine("sim", SRC, flavour=flavour, transport=transport)


def make_cases(prop, tier, seed, n, variants=(0,), fp_levels=(1, 2, 3), sizes=(0, 0, 1), gvts=None, ckpts=None, threads=None,
               flavours=("asan",), stats=False, model_base=None, same_model_group=1, burst=0, stateless=0):
    """n cases; same_model_group>1 => consecutive cases share the model seed (different configurations)."""
    cases = []
    exes = {fl: sim_exe(fl) for fl in flavours}
    gv = gvts or GVT
    ck = ckpts or CKPT
    th = threads or THREADS
    base = model_base if model_base is not None else (seed * 100003 + sum(ord(c) for c in prop) * 7919)
    for k in range(n):
        g = k // same_model_group
        mseed = base + g
        t = th[(k + g) % len(th)]
        fl = flavours[k % len(flavours)]
        v = variants[k % len(variants)]
        c = {"mseed": mseed, "size": sizes[g % len(sizes)], "threads": t, "ckpt": ck[(k * 3 + g) % len(ck)], "gvt": gv[(k * 5 + g) % len(gv)],
             "pseed": seed * 7919 + k, "fp": fp_levels[k % len(fp_levels)], "variant": v, "exe": exes[fl], "flavour": fl, "k": k}
        if burst and k % burst == burst - 2:
            # "burst" models: integer timestamps, chains of up to 12 simultaneous hops (many causally independent events at the timestamp of a GVT)
            c["env"] = {"VM_FORCE_TS": "3", "VM_FORCE_RNG": "0"}
        elif stateless and k % stateless == stateless - 3:
            # a third of the LPs never call SetState() and decide everything with the library generator (its context is all their state)
            c["env"] = {"VM_STATELESS": "1", "VM_FORCE_RNG": "1"}
        if stats:
            c["stats"] = os.path.join(vlib.BUILD, "stats", "%s_%d_%d" % (prop, os.getpid(), k))
        cases.append(c)
    return cases


def cmd_of(c):
    cmd = [c["exe"], str(c["mseed"]), str(c["size"]), str(c["threads"]), str(c["ckpt"]), str(c["gvt"]), str(c["pseed"]), str(c["fp"]), str(c["variant"])]
    if c.get("stats"):
        cmd.append(c["stats"])
    return cmd


def run_batches(cases, timeout=240, max_threads=16):
    """Run cases so that at most max_threads worker threads spin at once (workers spin: oversubscription turns spin loops into artefacts)."""
    import concurrent.futures as cf
    import threading
    sem_lock = threading.Condition()
    avail = [max_threads]
    results = [None] * len(cases)

    def one(i):
        c = cases[i]
        w = 1 if c["fp"] >= 10 else min(c["threads"], max_threads)   # baton runs are serialized: one core whatever the thread count
        with sem_lock:
            while avail[0] < w:
                sem_lock.wait()
            avail[0] -= w
        try:
            env = dict(c.get("env") or {})
            if c["pseed"] % 2:
                env["VERIF_MALLOC_FILL"] = "255"   # every other run: fresh heap memory reads as all-ones instead of ASan's 0xbe
            results[i] = vlib.run_case(cmd_of(c), timeout=timeout, env=env, tag="m%d/t%d/ck%d/g%d/p%d/fp%d/v%d" % (c["mseed"], c["threads"], c["ckpt"], c["gvt"], c["pseed"], c["fp"], c["variant"]) +
                                       "".join("/%s=%s" % (k[3:] if k.startswith("VM_") else k, v) for k, v in sorted((c.get("env") or {}).items())))
        finally:
            with sem_lock:
                avail[0] += w
                sem_lock.notify_all()
    with cf.ThreadPoolExecutor(max_threads) as ex:
        list(ex.map(one, range(len(cases))))
    return results


HANG_RE = re.compile(r"^HANGSIG (.*)$", re.M)


def absorb_sim(chk, c, res, retry_log=None):
    """Returns (record, anomaly). Own-property VKEYs become violations; others are foreign notes."""
    rec, anomaly = vlib.absorb(chk, res, replay_extra={"case": {k: v for k, v in c.items() if k != "exe"}})
    m = HANG_RE.search(res.out)
    if "BUDGET-EXCEEDED" in res.out:
        chk.inconc_case("event budget exceeded on %s (thrashing speculation, GVT still advancing): no verdict" % res.tag)
        return rec, "budget"
    if "MEMORY-BACKSTOP" in res.out:
        chk.inconc_case("memory backstop (3 GiB resident) on %s: unbounded speculation, no verdict" % res.tag)
        return rec, "membackstop"
    if m:
        anomaly = "hang:" + m.group(1)
    elif anomaly and anomaly.startswith("san:"):
        chk.violation("sanitizer:" + anomaly[4:], res.err[:2000], {"cmd": res.cmd}, prop="C11")
    elif anomaly == "timeout":
        chk.inconc_case("wall-clock backstop on %s (the state-based watchdog did not fire)" % res.tag)
    elif anomaly:
        chk.inconc("%s on %s: %s" % (anomaly, res.tag, (res.out[-300:] + " | " + res.err[-400:]).replace("\n", " ")))
    return rec, anomaly


def run_sim_cases(chk, cases, timeout=240, retries=1):
    """Run, absorb, retry cases that were unusable because of an anomaly belonging to another property."""
    todo = cases
    all_recs = []
    for attempt in range(retries + 1):
        results = run_batches(todo, timeout=timeout)
        again = []
        for c, res in zip(todo, results):
            rec, anomaly = absorb_sim(chk, c, res)
            all_recs.append((c, res, rec, anomaly))
            if anomaly and (anomaly.startswith("hang:") or anomaly.startswith("san:")) and chk.prop not in ("C08", "C11"):
                c2 = dict(c)
                c2["pseed"] = c["pseed"] + 1000003 * (attempt + 1)
                again.append(c2)
        todo = again
        if not todo:
            break
    chk.stats["cases_unusable_after_retries"] = chk.stats.get("cases_unusable_after_retries", 0) + len(todo)
    return all_recs


def run_sim_for(chk, prop, tier, seed):
    """Runtime-side part of the allocator-centred properties: oracle A of C05 (state digest after every rollback) and C13
    (fossil cut at a checkpoint at/below the committed frontier, rollbacks right after a collection)."""
    if prop == "C05":
        n = 60 if tier == "quick" else 500
        cases = make_cases(prop, tier, seed, n, variants=(0,), fp_levels=(1, 10, 2, 3, 10), sizes=(0, 0, 1), ckpts=[0, 1, 2, 3, 5, 7, 64, 16], burst=5, stateless=7)
    else:
        n = 60 if tier == "quick" else 500
        cases = make_cases(prop, tier, seed, n, variants=(0, 0, 1), fp_levels=(2, 10, 3, 1, 10), sizes=(0, 0, 1), gvts=[0, 0, 20, 0, 100], ckpts=[1, 2, 3, 4, 5, 6, 7], burst=5)
    return run_sim_cases(chk, cases, timeout=300)
