"""C06: cancellation is exactly-once.
Oracle (online): per-message queue-membership counter, in-history bit, release justification and cancellation count kept in
guarded shadow fields of the message preamble; per-LP shadow history whose undone part must be cancelled (sends) and
un-processed (events) exactly once per rollback; released buffers are ASan-poisoned; allocations == releases at the end."""
import vlib
import sim_common
import mpi_common


def run(tier, seed):
    chk = vlib.Check("C06", tier, seed)
    n = 90 if tier == "quick" else 900
    cases = sim_common.make_cases("C06", tier, seed, n, variants=(0,), fp_levels=(3, 10, 2, 3, 10), sizes=(0, 0, 1), burst=5,
                                  threads=[4, 8, 2, 12, 3, 16, 6], gvts=[1000, 0, 100000, 300, 20])
    sim_common.run_sim_cases(chk, cases, timeout=300)
    # remote windows (cancel before arrival / found in history) need real MPI ranks
    mcases = mpi_common.make_cases("C06", tier, seed, 12 if tier == "quick" else 150, variants=(0,), fault_rates=(0, 40), layouts=[(2, 2), (2, 1), (3, 1), (3, 2)], burst=4)
    mpi_common.run_mpi_cases(chk, mcases, timeout=30 if tier == "quick" else 90)
    chk.rule = ("one case = (generated model with few LPs per thread and heavy cross-thread traffic, 2..16 threads, failpoints right after every flag update and "
                "before re-insertion); the four local windows (cancel before / after the receiver processed, undo of an already cancelled event, undo with "
                "re-queue) are counted; non-trivial / distinct as C01")
    chk.assumptions = ["remote copies: each rank checks that a parked early anti-message annihilates its event when it arrives and that an event whose anti-message "
                       "is parked is never executed; sender-side and receiver-side records of one remote message are not matched across ranks"]
    return chk.finish(min_evals=20, require={"cancel_before_receiver_processed": 100, "cancel_after_receiver_processed": 100, "undo_of_already_cancelled_event": 100,
                                             "undo_requeued_event": 100, "extracted_cancelled_unprocessed": 100, "extracted_cancelled_requeued": 10, "message_frees": 10000,
                                             "remote_anti_parked_early": 10, "events_annihilated_by_early_anti": 10, "remote_anti_found_in_history": 10})
