"""C06: cancellation is exactly-once.
Oracle (online): per-message queue-membership counter, in-history bit, release justification and cancellation count kept in
guarded shadow fields of the message preamble; per-LP shadow history whose undone part must be cancelled (sends) and
un-processed (events) exactly once per rollback; released buffers are ASan-poisoned; allocations == releases at the end."""
import vlib
import sim_common


def run(tier, seed):
    chk = vlib.Check("C06", tier, seed)
    n = 180 if tier == "quick" else 3000
    cases = sim_common.make_cases("C06", tier, seed, n, variants=(0,), fp_levels=(3, 2, 3), sizes=(0, 0, 1),
                                  threads=[4, 8, 2, 12, 3, 16, 6], gvts=[1000, 0, 100000, 300, 20])
    sim_common.run_sim_cases(chk, cases, timeout=300)
    chk.rule = ("one case = (generated model with few LPs per thread and heavy cross-thread traffic, 2..16 threads, failpoints right after every flag update and "
                "before re-insertion); the four local windows (cancel before / after the receiver processed, undo of an already cancelled event, undo with "
                "re-queue) are counted; non-trivial / distinct as C01")
    chk.assumptions = ["remote (MPI) copies are tied together by the mpi engine (C02); here n_nodes == 1"]
    return chk.finish(min_evals=20, require={"cancel_before_receiver_processed": 100, "cancel_after_receiver_processed": 100, "undo_of_already_cancelled_event": 100,
                                             "undo_requeued_event": 100, "extracted_cancelled_unprocessed": 100, "extracted_cancelled_requeued": 10, "message_frees": 10000})
