"""C14: every LP has exactly one owner; routing agrees with ownership.
Oracle: the real lp_global_init/lp_init/lp_fini + routing macros executed for every rank and thread of a triple,
with stubbed callees recording who initialised/finalised which LP."""
import os
import vlib


def run(tier, seed):
    chk = vlib.Check("C14", tier, seed)
    exe = vlib.build_engine("part", [os.path.join(vlib.VERIF, "engines", "part.c")], flavour="asan", link_core=False)
    cases = []
    if tier == "quick":
        maxL, maxR, maxT, step = 300, 8, 16, 50
    else:
        maxL, maxR, maxT, step = 3000, 16, 32, 100
    lo = 1
    while lo <= maxL:
        hi = min(maxL, lo + step - 1)
        cases.append(([exe, "box", str(hi), str(maxR), str(maxT), str(lo)], "box %d..%d" % (lo, hi)))
        lo = hi + 1
    nbig = 4 if tier == "quick" else 16
    for k in range(nbig):
        cases.append(([exe, "big", "400" if tier == "quick" else "3000", str(seed * 100 + k)], "big/%d" % k))
    for res in vlib.run_cases(cases, parallel=16, timeout=300 if tier == "quick" else 1200):
        rec, anomaly = vlib.absorb(chk, res)
        if anomaly:
            if anomaly.startswith("san:"):
                chk.violation("sanitizer:" + anomaly[4:], res.err[-1500:], {"cmd": res.cmd})
            else:
                chk.inconc("%s on %s: %s" % (anomaly, res.tag, res.err[-300:]))
    # routing at the send site, in real runs: every ScheduleNewEvent / queue insertion / MPI send is checked against the LPs the node and
    # thread really initialised (monitors in hooks/vhook.c); multi-rank layouts so that sends cross every rank boundary in both directions
    import sim_common
    import mpi_common
    chk.soft_fraction = 0.5
    scases = sim_common.make_cases("C14", tier, seed, 16 if tier == "quick" else 200, variants=(0,), fp_levels=(2, 10, 1), sizes=(0,), threads=[2, 3, 5, 7, 16, 12])
    sim_common.run_sim_cases(chk, scases, timeout=300)
    mcases = mpi_common.make_cases("C14", tier, seed, 14 if tier == "quick" else 150, variants=(0,), fault_rates=(0,), layouts=[(2, 1), (3, 1), (2, 2), (4, 1), (3, 2), (2, 3)])
    for i, c in enumerate(mcases):
        c["dest"] = (1, 2)[i % 2]   # ring neighbour (always crosses the boundary to the next rank) / uniform
    mpi_common.run_mpi_cases(chk, mcases, timeout=40 if tier == "quick" else 90, retries=0)
    chk.distinct = chk.stats.get("nontrivial_triples", 0)
    chk.exhaustive = True
    chk.rule = ("every (LPs, ranks<=LPs, threads) triple of the box LPs 1..%d x ranks 1..%d x threads 1..%d is run through the real "
                "lp_global_init/lp_init/lp_fini for every rank and thread (exhaustive over the box), plus random triples with "
                "2^20..2^41 LPs checked at partition boundaries only; non-trivial = LPs not divisible by ranks*threads or LPs < threads; "
                "distinct = the triple itself" % (maxL, maxR, maxT))
    return chk.finish(min_evals=1000, require={"lp_routings_checked": 10000, "triples_with_thread_clamp": 1, "remote_sends": 100, "local_sends": 1000})
