"""C11: memory safety and absence of undefined behaviour for every valid model.
Oracle: ASan + UBSan (fatal, one process per case) on the real code while every engine's workload runs: parallel runs with
poisoned released message buffers and exact-size checkpoints, serial runs, allocator histories, queue histories incl. shutdown
with pending messages, topology and numerical library with crafted generator states."""
import os
import vlib
import sim_common
import alloc_common
import mpi_common


def run(tier, seed):
    chk = vlib.Check("C11", tier, seed)
    flav = ("asan", "asan-ndebug")
    n = 70 if tier == "quick" else 1000
    cases = sim_common.make_cases("C11", tier, seed, n, variants=(0, 0, 1, 2, 0, 3), fp_levels=(1, 10, 2, 3), sizes=(0, 1, 0), flavours=flav, burst=6, stateless=8)
    sim_common.run_sim_cases(chk, cases, timeout=300, retries=0)
    chk.soft_fraction = 0.3
    mcases = mpi_common.make_cases("C11", tier, seed, 12 if tier == "quick" else 150, variants=(0, 1, 2), fault_rates=(0, 40), flavours=flav)
    mpi_common.run_mpi_cases(chk, mcases, timeout=30 if tier == "quick" else 90, retries=0)
    # the unit engines, reduced counts; any sanitizer report in repo code is a C11 violation
    V = vlib.VERIF
    stub = os.path.join(V, "hooks", "vhook_stub.c")
    extra = []
    for fl in flav:
        q = vlib.build_engine("queue", [os.path.join(V, "engines", "queue.c")], flavour=fl)
        for pend, pl in ((7, 8), (9, 48), (40, 300), (3, 33)):
            extra.append(([q, "fini", str(pend), str(pl)], "queue-fini/%s/%d/%d" % (fl, pend, pl)))
        extra.append(([q, "run", "4", "2", "20000", "1", str(seed)], "queue-run/" + fl))
        s = vlib.build_engine("serial", [os.path.join(V, "engines", "serial.c"), os.path.join(V, "model", "vmodel.c"), os.path.join(V, "model", "vcore_env.c"), stub], flavour=fl)
        for k in range(4):
            extra.append(([s, str(seed * 5000 + k * 20), "12", str(k % 2), str(k % 2)], "serial/%s/%d" % (fl, k)))
        nm = vlib.build_engine("num", [os.path.join(V, "engines", "num.c"), stub], flavour=fl)
        extra.append(([nm, "crafted", str(seed)], "num/" + fl))
        tp = vlib.build_engine("topo", [os.path.join(V, "engines", "topo.c"), stub], flavour=fl)
        extra.append(([tp, "box", "8", "30", str(seed)], "topo/" + fl))
        al = vlib.build_engine("alloc", alloc_common.SRC, flavour=fl)
        for k in range(4):
            extra.append(([al, "hist", "8", "2500", str(seed * 77 + k)], "alloc/%s/%d" % (fl, k)))
    for res in vlib.run_cases(extra, parallel=8, timeout=600):
        rec, anomaly = vlib.absorb(chk, res)
        if anomaly:
            if anomaly.startswith("san:"):
                chk.violation("sanitizer:" + anomaly[4:], res.err[:2000], {"cmd": res.cmd})
            elif anomaly == "timeout":
                chk.inconc("timeout on %s" % res.tag)
            else:
                chk.inconc("%s on %s: %s" % (anomaly, res.tag, res.err[-300:].replace("\n", " ")))
    chk.rule = ("one case = one sanitized process: a parallel run of a generated model (debug and NDEBUG layouts; predicates / termination time / RootsimStop "
                "endings), or a unit-engine workload (queue histories and shutdown with pending small/large messages, serial runs, allocator histories, "
                "numerical library with crafted states, topology box); non-trivial parallel case = rollbacks + anti-messages; distinct = schedule signature")
    chk.assumptions = ["red-zone tools miss intra-object and far out-of-bounds accesses; a clean run is not memory safety",
                       "memcmp(a->pl, ..., pl_size > 32) deliberately runs from pl into extra_pl inside one allocation"]
    return chk.finish(min_evals=20, require={"forward_executions": 100000, "rollbacks": 100, "message_frees": 10000, "shutdown_with_pending": 10, "checkpoints": 1000, "remote_sends": 1000})
