"""C07: no premature termination.
Oracle: when RootsimRun returns without RootsimStop, every LP satisfies its (monotone) predicate at LP_FINI and its committed
prefix (as counted for C03) reaches the reference position where the predicate first held, unless the final GVT reached the
termination time."""
import vlib
import sim_common


def run(tier, seed):
    chk = vlib.Check("C07", tier, seed)
    n = 130 if tier == "quick" else 1500
    cases = sim_common.make_cases("C07", tier, seed, n, variants=(0, 0, 1, 0), fp_levels=(2, 10, 3, 1, 10), sizes=(0, 0, 0, 1),
                                  threads=[2, 3, 4, 8, 2, 16, 5, 12], gvts=[0, 20, 1000, 300, 5000])
    # half of the cases: a sparse LP (done after 1-2 rarely arriving events) and many threads, so that a cancelled terminating event leaves
    # an LP that is counted as done for a long time while its state says otherwise
    for i, c in enumerate(cases):
        if i % 2:
            c["env"] = {"VM_FORCE_SPARSE": "1"}
            c["threads"] = (8, 6, 12, 4)[(i // 2) % 4]
            c["fp"] = 3 if i % 4 == 1 else 2
        elif i % 4 == 0:
            # clustered terminations: every LP is also done at its first event at/after a common timestamp, so near the end the LPs of a
            # thread become done within a narrow band of virtual time and rollbacks around that band flip them back and forth
            c["env"] = {"VM_END_CLUSTER": str((50, 30, 70)[(i // 4) % 3])}
            if (i // 4) % 2:
                c["env"].update({"VM_FORCE_TS": "3", "VM_FORCE_RNG": "0"})
    # many tiny runs (4-6 LPs on 2-3 threads, no sanitizer: the monitors do not need it) with clustered terminations and dense GVT values:
    # the end game (all LPs of a thread done speculatively, stragglers undoing and redoing terminations) is most of such a run
    n2 = 240 if tier == "quick" else 3000
    tiny = sim_common.make_cases("C07", tier, seed + 31, n2, variants=(0,), fp_levels=(10, 2, 3, 10), sizes=(0,), threads=[2, 3, 2, 3, 4], gvts=[0, 0, 20, 0, 5],
                                 flavours=("plain",))
    for i, c in enumerate(tiny):
        c["env"] = {"VM_END_CLUSTER": str((50, 30, 70)[i % 3]), "VM_FORCE_LPS": str(4 + i % 3)}
        if i % 2:
            c["env"].update({"VM_FORCE_TS": "3", "VM_FORCE_RNG": "0"})
    sim_common.run_sim_cases(chk, cases + tiny, timeout=300)
    chk.rule = ("one case = (generated model: predicates true at init, first true after a handful of events (often at timestamp 0), targets reached "
                "speculatively and rolled back, unbalanced LP-to-thread layouts incl. more threads than LPs; termination-time runs); non-trivial / distinct as C01")
    chk.assumptions = ["predicates of the model family are monotone (an LP freezes when its predicate holds); flip-back predicates are not generated"]
    return chk.finish(min_evals=20, require={"c07_lps_checked": 500, "termination_votes": 100, "rollbacks": 100, "runs_variant_1": 10})
