"""Driver for the mpi flavour of the sim engine: real OpenMPI, mpiexec -n R, PMPI shim."""
import glob
import os
import re
import shutil
import vlib
import sim_common

SRC = sim_common.SRC + [os.path.join(vlib.VERIF, "engines", "pmpi_shim.c")]
LAYOUTS = [(2, 2), (3, 2), (2, 1), (4, 2), (2, 4), (2, 3), (3, 2), (2, 2)]


def mpi_exe(flavour="asan"):
    return vlib.build_engine("sim_mpi", SRC, flavour=flavour, transport="mpi", extra=["-DSIM_MPI"])


def make_cases(prop, tier, seed, n, variants=(0,), fp_levels=(2, 10, 3, 1, 10), layouts=None, gvts=None, ckpts=None, fault_rates=(0, 40, 0, 16), flavours=("asan",),
               model_base=None, same_model_group=1, burst=0):
    exes = {fl: mpi_exe(fl) for fl in flavours}
    lay = layouts or LAYOUTS
    gv = gvts or [1000, 0, 100000, 300, 20, 5000]
    ck = ckpts or sim_common.CKPT
    base = model_base if model_base is not None else (seed * 100003 + sum(ord(c) for c in prop) * 7919 + 555)
    cases = []
    for k in range(n):
        g = k // same_model_group
        r, t = lay[(k + g) % len(lay)]
        fl = flavours[k % len(flavours)]
        cases.append({"mseed": base + g, "size": 0, "ranks": r, "threads": t, "ckpt": ck[(k * 3 + g) % len(ck)], "gvt": gv[(k * 5 + g) % len(gv)],
                      "pseed": seed * 7919 + k, "fp": fp_levels[k % len(fp_levels)], "variant": variants[k % len(variants)], "fault": fault_rates[k % len(fault_rates)],
                      "exe": exes[fl], "flavour": fl, "k": k,
                      # destination laws under which no rank can run far ahead on its own (ring / uniform): with the self-heavy and hot-spot
                      # laws one rank floods the others with speculative traffic and GVT rounds over MPI take seconds (no flow control in the core)
                      "dest": (1, 2, 2)[k % 3]})
        if burst and k % burst == burst - 2:
            cases[-1]["env"] = {"VM_FORCE_TS": "3", "VM_FORCE_RNG": "0"}   # burst models, see sim_common.make_cases
    return cases


def run_one(c, timeout):
    out = os.path.join(vlib.BUILD, "mpiout", "r%d_%d" % (os.getpid(), c["k"]))
    os.makedirs(os.path.dirname(out), exist_ok=True)
    for f in glob.glob(out + ".*"):
        os.remove(f)
    cmd = ["mpiexec", "--allow-run-as-root", "--oversubscribe", "--bind-to", "none", "-n", str(c["ranks"]),
           c["exe"], str(c["mseed"]), str(c["size"]), str(c["threads"]), str(c["ckpt"]), str(c["gvt"]), str(c["pseed"]), str(c["fp"]), str(c["variant"])]
    if c.get("stats"):
        cmd.append(c["stats"])
    env = {"VERIF_OUT": out, "VERIF_MPI_FAULT": str(c["fault"]), "VM_FORCE_DEST": str(c.get("dest", 2)), "OMPI_MCA_btl": "self,vader,tcp", "OMPI_MCA_rmaps_base_oversubscribe": "1"}
    env.update(c.get("env") or {})
    if c["pseed"] % 2:
        env["VERIF_MALLOC_FILL"] = "255"
    res = vlib.run_case(cmd, timeout=timeout, env=env,
                        tag="m%d/%dx%d/ck%d/g%d/p%d/fp%d/v%d/f%d%s" % (c["mseed"], c["ranks"], c["threads"], c["ckpt"], c["gvt"], c["pseed"], c["fp"], c["variant"], c["fault"],
                                                                       "/TS=3" if c.get("env") else ""))
    texts = []
    for r in range(c["ranks"]):
        try:
            texts.append(open("%s.%d" % (out, r)).read())
        except OSError:
            texts.append("")
    for f in glob.glob(out + ".*"):
        os.remove(f)
    return res, texts


def run_batches(cases, timeout=240, max_threads=16):
    import concurrent.futures as cf
    import threading
    cond = threading.Condition()
    avail = [max_threads]
    results = [None] * len(cases)

    def one(i):
        c = cases[i]
        w = min(c["ranks"] * (1 if c["fp"] >= 10 else c["threads"]), max_threads)   # baton: one running thread per rank
        with cond:
            while avail[0] < w:
                cond.wait()
            avail[0] -= w
        try:
            results[i] = run_one(c, timeout)
        finally:
            with cond:
                avail[0] += w
                cond.notify_all()
    with cf.ThreadPoolExecutor(8) as ex:
        list(ex.map(one, range(len(cases))))
    return results


def run_mpi_cases(chk, cases, timeout=240, retries=1):
    """Absorbs every rank's record; checks that the ranks together reported every LP exactly once. Returns list of (case, res, ranktexts, anomaly)."""
    out = []
    todo = cases
    for attempt in range(retries + 1):
        again = []
        for c, (res, texts) in zip(todo, run_batches(todo, timeout)):
            anomaly = None
            owners = {}
            nl = None
            rejected = False
            all_ok = True
            for r, txt in enumerate(texts):
                rec = vlib.parse_records(txt)
                # Before the termination condition holds, GVT rounds over MPI may take seconds when a rank is flooded with speculative
                # traffic (its receive loop starves the reduction): a stall or an exhausted event budget while every thread is still in the
                # main loop is slow progress, not a shutdown defect => inconclusive. Stalls during shutdown stay violations of C08.
                keep = []
                for prop, key, detail in rec["viol"]:
                    if prop == "C08" and (key == "hang" and "signature=loop ::" in detail):
                        chk.inconc_case("slow progress in the main loop on %s rank %d (%s)" % (res.tag, r, key))
                        chk.stats["mpi_main_loop_stalls_inconclusive"] = chk.stats.get("mpi_main_loop_stalls_inconclusive", 0) + 1
                    else:
                        keep.append((prop, key, detail))
                rec["viol"] = keep
                # count a case once (rank 0), counters from every rank
                if r != 0 and "cases" in rec["stats"]:
                    rec["stats"]["cases"] = 0
                    rec["stats"]["nontrivial_cases"] = 0
                chk.add_stats(rec)
                chk.evaluations += rec["stats"].get("cases", 0)
                for prop, key, detail in rec["viol"]:
                    chk.violation(key, detail, {"cmd": res.cmd, "rank": r, "case": {k: v for k, v in c.items() if k != "exe"}}, prop=prop)
                m = re.search(r"^HANGSIG (.*)$", txt, re.M)
                if m and not (anomaly or "").startswith("hang:drain"):
                    sigx = m.group(1)
                    anomaly = ("slow:" if (sigx == "loop" or sigx.startswith("runaway-events")) else "hang:") + sigx
                if "models_rejected" in rec["stats"]:
                    rejected = True
                if ("BUDGET-EXCEEDED" in txt or "MEMORY-BACKSTOP" in txt) and not anomaly:
                    anomaly = "slow:budget"
                    chk.inconc_case("event/memory budget exceeded on %s rank %d (speculative flood): no verdict" % (res.tag, r))
                all_ok &= rec["ok"]
                m = re.search(r"^LPRANGE (\d+) (\d+) (\d+) (\d+) (\d+)$", txt, re.M)
                if m:
                    nl = int(m.group(5))
                    for lp in range(int(m.group(3)), int(m.group(4))):
                        owners.setdefault(lp, []).append(r)
            sk = vlib.sanitizer_key(res.err)
            if sk and not anomaly:
                anomaly = "san:" + sk
                chk.violation("sanitizer:" + sk, res.err[:2500], {"cmd": res.cmd}, prop="C11")
            if res.timed_out and not anomaly:
                anomaly = "timeout"
                chk.inconc_case("wall-clock backstop on %s" % res.tag)
            if not anomaly and not rejected:
                if not all_ok:
                    anomaly = "noend"
                    chk.inconc("a rank did not reach its end on %s: rc=%s %s" % (res.tag, res.rc, res.err[-300:].replace("\n", " ")))
                elif nl is not None:
                    bad = [lp for lp in range(nl) if len(owners.get(lp, [])) != 1]
                    if bad:
                        chk.violation("lp-not-reported-exactly-once-across-ranks", "%s: LPs %s reported by ranks %s" % (res.tag, bad[:6], [owners.get(b) for b in bad[:6]]), {"cmd": res.cmd}, prop="C14")
            out.append((c, res, texts, anomaly))
            if anomaly and anomaly.startswith(("hang:", "san:")) and chk.prop not in ("C08", "C11"):
                c2 = dict(c)
                c2["pseed"] = c["pseed"] + 1000003 * (attempt + 1)
                again.append(c2)
        todo = again
        if not todo:
            break
    chk.stats["cases_unusable_after_retries"] = chk.stats.get("cases_unusable_after_retries", 0) + len(todo)
    return out
