"""C08: every run returns - termination and shutdown are live (decided as bounded progress).
Oracle: state-based watchdog over the per-thread stage / GVT-phase table fed by hooks (no thread changed state for 12 s =>
hang, with the wait-for picture as witness), step budgets (forward executions; state transitions after every thread left
the main loop), LP_FINI exactly once per LP."""
import vlib
import sim_common
import mpi_common


def run(tier, seed):
    chk = vlib.Check("C08", tier, seed)
    n = 160 if tier == "quick" else 2500
    cases = sim_common.make_cases("C08", tier, seed, n, variants=(0, 0, 1, 2, 0, 3, 0, 1), fp_levels=(2, 10, 3, 1, 10, 2, 3), sizes=(0,),
                                  gvts=[0, 20, 1000, 0, 200, 50, 1000, 5000], threads=[2, 3, 4, 2, 8, 2, 12, 5, 3, 4, 2, 6])
    recs = sim_common.run_sim_cases(chk, cases, timeout=200, retries=0)
    # the suite's and the users' configuration: MPI transport with a single rank (control messages travel through MPI to self, so a
    # MSG_CTRL_GVT_START / _DONE can be in flight while threads change stage); mildly oversubscribed on purpose
    sexe = mpi_common.mpi_exe("asan")
    scases = sim_common.make_cases("C08", tier, seed + 17, 70 if tier == "quick" else 1200, variants=(0, 0, 1, 2, 0, 3), fp_levels=(2, 10, 3, 1, 10), sizes=(0,),
                                   gvts=[1, 200, 0, 20, 1000], threads=[4, 2, 3, 4, 8, 4])
    for c in scases:
        c["exe"] = sexe
    srecs = []
    for c, res in zip(scases, sim_common.run_batches(scases, timeout=100, max_threads=28)):
        rec, anomaly = sim_common.absorb_sim(chk, c, res)
        srecs.append(anomaly)
    chk.stats["mpi_singleton_runs_returned"] = sum(1 for a in srecs if not a)
    # multi-rank shutdown: ranks leave the main loop at different moments, control messages may still be in flight
    chk.soft_fraction = 0.3
    mcases = mpi_common.make_cases("C08", tier, seed, 48 if tier == "quick" else 400, variants=(2, 0, 3, 1, 0), fault_rates=(0, 40, 0),
                                   layouts=[(2, 2), (3, 2), (2, 1), (3, 1), (2, 3), (4, 1)], gvts=[0, 20, 200, 1, 1000, 5000])
    mrecs = mpi_common.run_mpi_cases(chk, mcases, timeout=30 if tier == "quick" else 90, retries=0)
    chk.stats["mpi_runs_returned"] = sum(1 for c, r, t, a in mrecs if not a)
    chk.rule = ("one case = a short run (1.5k-4.5k events) of a generated model ended by predicates (unbalanced targets: some LPs done at init or after a few "
                "events), by a termination time, or by RootsimStop() from a handler (also at timestamp 0 with other timestamp-0 events pending), with GVT "
                "period 0/20/50/200/1000/5000 us, 2..12 threads, failpoints at loop exit, after the GVT block, between GVT phases, in barrier spins; "
                "non-trivial = rollbacks + anti-messages occurred; distinct = schedule signature")
    chk.assumptions = ["liveness is decided as bounded progress: every explored run returned within the step budget and without a 12 s state freeze; an unbounded 'eventually' is out of reach of runtime monitoring"]
    return chk.finish(min_evals=50, require={"runs_variant_0": 20, "runs_variant_1": 10, "runs_variant_2": 10, "runs_variant_3": 5, "termination_votes": 50, "gvt_values_consumed": 500, "mpi_runs_returned": 6, "mpi_singleton_runs_returned": 30})
