/* C16 engine: the real msg_is_before()/msg_is_before_extended() from lp/msg.h, evaluated over ALL triples
 * of a pool of events (exhaustive over the pool) + content-only twins.
 * usage: order <pool_size> <seed>
 */
#include <lp/msg.h>
#include <math.h>
#include <stdio.h>
#include <stdlib.h>
#include "vutil.h"

#define MAXPL 96
struct ev {
	union {
		struct lp_msg m;
		unsigned char raw[sizeof(struct lp_msg) + MAXPL];
	};
	char desc[96];
};

static struct ev *pool;
static unsigned n_pool;
static unsigned long long n_viol;

static void describe(struct ev *e)
{
	unsigned long long h = 1469598103934665603ULL;
	const unsigned char *pl = e->m.pl;
	for(unsigned i = 0; i < e->m.pl_size; ++i)
		h = (h ^ pl[i]) * 1099511628211ULL;
	snprintf(e->desc, sizeof(e->desc), "{t=%a,flags=0x%x,type=%u,size=%u,plh=%llx}", e->m.dest_t, e->m.raw_flags,
	    e->m.m_type, e->m.pl_size, e->m.pl_size ? h : 0ULL);
}

static void fill(struct ev *e, double t, uint32_t flags, uint32_t type, uint32_t size, int pat, int pos, vrng_t *r)
{
	memset(e->raw, 0xA5, sizeof(e->raw)); /* bytes beyond pl_size are junk on purpose */
	e->m.next = (struct lp_msg *)(uintptr_t)vrng_u64(r);
	e->m.dest = vrng_u64(r) % 1000;
	e->m.dest_t = t;
	e->m.raw_flags = flags;
	e->m.m_seq = (uint32_t)vrng_u64(r);
	e->m.m_type = type;
	e->m.pl_size = size;
#ifndef NDEBUG
	e->m.send = vrng_u64(r) % 1000;
	e->m.send_t = (double)(vrng_u64(r) % 100);
#endif
	static const unsigned char alpha[] = {0x00, 0x01, 0x7f, 0x80, 0xff};
	unsigned char base = alpha[pat % 5];
	unsigned char *pl = e->m.pl; /* through a pointer: the payload legitimately runs past pl[32] into extra_pl */
	for(uint32_t i = 0; i < size; ++i)
		pl[i] = base;
	if(size) { /* one differing byte at first / last / beyond the 32-byte base part */
		uint32_t where = pos == 0 ? 0 : pos == 1 ? size - 1 : (size > 33 ? 33 : size / 2);
		pl[where] = alpha[(pat / 5) % 5];
	}
	describe(e);
}

static int same_content(const struct ev *a, const struct ev *b)
{
	return a->m.dest_t == b->m.dest_t && ((a->m.raw_flags ^ b->m.raw_flags) & MSG_FLAG_ANTI) == 0 &&
	       a->m.m_type == b->m.m_type && a->m.pl_size == b->m.pl_size &&
	       memcmp(a->m.pl, b->m.pl, a->m.pl_size) == 0;
}

static void viol(const char *key, const struct ev *a, const struct ev *b, const struct ev *c)
{
	if(n_viol++ < 8)
		printf("VKEY C16 %s | a=%s b=%s c=%s\n", key, a->desc, b ? b->desc : "-", c ? c->desc : "-");
}

int main(int argc, char **argv)
{
	unsigned want = argc > 1 ? (unsigned)atoi(argv[1]) : 150;
	uint64_t seed = argc > 2 ? strtoull(argv[2], NULL, 0) : 1;
	vrng_t r;
	vrng_seed(&r, seed);
	pool = calloc(want + 64, sizeof(*pool));

	const double ts[] = {0.0, 1.0, nextafter(1.0, 2.0), 2.0, 1.0, 1.0}; /* 1.0 over-represented: ties matter */
	const uint32_t fl[] = {0, MSG_FLAG_ANTI, MSG_FLAG_PROCESSED, MSG_FLAG_ANTI | MSG_FLAG_PROCESSED,
	    (0x1234U << 2), (0x1234U << 2) | MSG_FLAG_ANTI, (7U << 14) | MSG_FLAG_PROCESSED};
	const uint32_t ty[] = {0, 1, 2, LP_INIT, UINT32_MAX};
	const uint32_t sz[] = {0, 1, 8, 32, 33, 40, 64};

	/* fixed core: a few hand-picked corner events always present */
	fill(&pool[n_pool++], 1.0, 0, 0, 0, 0, 0, &r);
	fill(&pool[n_pool++], 1.0, MSG_FLAG_ANTI, 0, 0, 0, 0, &r);
	fill(&pool[n_pool++], 1.0, 0, 1, 0, 0, 0, &r);
	fill(&pool[n_pool++], 1.0, 0, 0, 40, 3, 2, &r);  /* differs only beyond byte 32 */
	fill(&pool[n_pool++], 1.0, 0, 0, 40, 8, 2, &r);
	fill(&pool[n_pool++], 1.0, 0, 0, 40, 3 + 5 * 4, 2, &r);
	fill(&pool[n_pool++], 1.0, 0, 0, 8, 2, 0, &r);
	fill(&pool[n_pool++], 1.0, 0, 0, 8, 3, 0, &r);   /* 0x7f vs 0x80: signedness of the byte compare */
	unsigned guard = 0;
	while(n_pool < want && guard++ < want * 50) {
		struct ev *e = &pool[n_pool];
		fill(e, ts[vrng_u64(&r) % 6], fl[vrng_u64(&r) % 7], ty[vrng_u64(&r) % 5], sz[vrng_u64(&r) % 7],
		    vrng_u64(&r) % 25, vrng_u64(&r) % 3, &r);
		int dup = 0;
		for(unsigned i = 0; i < n_pool && !dup; ++i)
			dup = same_content(&pool[i], e) && pool[i].m.raw_flags == e->m.raw_flags;
		if(!dup)
			n_pool++;
	}

	unsigned long long triples = 0, nontrivial = 0, pairs = 0, twins = 0, incomparable_pairs = 0;
	/* relation matrix */
	unsigned char *B = malloc((size_t)n_pool * n_pool);
	for(unsigned i = 0; i < n_pool; ++i)
		for(unsigned j = 0; j < n_pool; ++j) {
			B[i * n_pool + j] = msg_is_before(&pool[i].m, &pool[j].m);
			pairs++;
		}
	for(unsigned i = 0; i < n_pool; ++i) {
		if(B[i * n_pool + i])
			viol("irreflexive", &pool[i], NULL, NULL);
		for(unsigned j = 0; j < n_pool; ++j) {
			if(B[i * n_pool + j] && B[j * n_pool + i])
				viol("asymmetric", &pool[i], &pool[j], NULL);
			if(i < j && !B[i * n_pool + j] && !B[j * n_pool + i]) {
				incomparable_pairs++;
				/* the documented meaning of incomparability: same content */
				if(!same_content(&pool[i], &pool[j]))
					viol("incomparable-but-different-content", &pool[i], &pool[j], NULL);
			}
		}
	}
	for(unsigned i = 0; i < n_pool; ++i)
		for(unsigned j = 0; j < n_pool; ++j)
			for(unsigned k = 0; k < n_pool; ++k) {
				triples++;
				double ti = pool[i].m.dest_t, tj = pool[j].m.dest_t, tk = pool[k].m.dest_t;
				nontrivial += (ti == tj || tj == tk || ti == tk) && i != j && j != k && i != k;
				int ij = B[i * n_pool + j], jk = B[j * n_pool + k], ik = B[i * n_pool + k];
				int ji = B[j * n_pool + i], kj = B[k * n_pool + j], ki = B[k * n_pool + i];
				if(ij && jk && !ik)
					viol("transitive", &pool[i], &pool[j], &pool[k]);
				if(!ij && !ji && !jk && !kj && (ik || ki))
					viol("incomparability-transitive", &pool[i], &pool[j], &pool[k]);
			}
	/* content-only: twins differ in everything the order must ignore */
	struct ev *tw = malloc(sizeof(*tw));
	for(unsigned i = 0; i < n_pool; ++i) {
		for(int variant = 0; variant < 4; ++variant) {
			*tw = pool[i];
			tw->m.next = (struct lp_msg *)(uintptr_t)vrng_u64(&r);
			tw->m.dest = vrng_u64(&r);
			tw->m.m_seq = (uint32_t)vrng_u64(&r);
			uint32_t keep = tw->m.raw_flags & MSG_FLAG_ANTI;
			tw->m.raw_flags = keep | (variant & 1 ? MSG_FLAG_PROCESSED : 0) |
					  (variant & 2 ? ((uint32_t)vrng_u64(&r) << 2) : 0);
#ifndef NDEBUG
			tw->m.send = vrng_u64(&r);
			tw->m.send_t = (double)(vrng_u64(&r) % 1000);
#endif
			unsigned char *tpl = tw->m.pl;
			for(unsigned b = tw->m.pl_size; b < MSG_PAYLOAD_BASE_SIZE + MAXPL; ++b)
				tpl[b] = (unsigned char)vrng_u64(&r);
			describe(tw);
			for(unsigned j = 0; j < n_pool; ++j) {
				twins++;
				if(msg_is_before(&tw->m, &pool[j].m) != B[i * n_pool + j] ||
				    msg_is_before(&pool[j].m, &tw->m) != B[j * n_pool + i])
					viol("content-only", &pool[i], tw, &pool[j]);
			}
			if(msg_is_before(&tw->m, &pool[i].m) || msg_is_before(&pool[i].m, &tw->m))
				viol("content-only-self", &pool[i], tw, NULL);
		}
	}
	printf("STAT cases %llu\nSTAT triples %llu\nSTAT triples_with_equal_timestamps %llu\nSTAT pairs %llu\n"
	       "STAT incomparable_pairs %llu\nSTAT twin_comparisons %llu\nSTAT pool %u\nSTAT violations %llu\n",
	    triples, triples, nontrivial, pairs, incomparable_pairs, twins, n_pool, n_viol);
	printf("SAMPLE {\"triple\":[\"%s\",\"%s\",\"%s\"],\"before\":[%d,%d,%d]}\n", pool[3].desc, pool[4].desc, pool[5].desc,
	    B[3 * n_pool + 4], B[4 * n_pool + 5], B[3 * n_pool + 5]);
	printf("SAMPLE {\"pair\":[\"%s\",\"%s\"],\"before\":[%d,%d]}\n", pool[0].desc, pool[1].desc, B[1], B[n_pool]);
	printf("OK order\n");
	return 0;
}
