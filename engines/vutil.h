/* Small helpers shared by the harness engines. */
#pragma once
#include <stdint.h>
#include <stdio.h>
#include <string.h>

typedef struct { uint64_t s; } vrng_t;
static inline void vrng_seed(vrng_t *r, uint64_t s) { r->s = s * 0x9E3779B97F4A7C15ULL + 0x1234567ULL; }
static inline uint64_t vrng_u64(vrng_t *r)
{
	uint64_t z = (r->s += 0x9E3779B97F4A7C15ULL);
	z = (z ^ (z >> 30)) * 0xBF58476D1CE4E5B9ULL;
	z = (z ^ (z >> 27)) * 0x94D049BB133111EBULL;
	return z ^ (z >> 31);
}
static inline uint64_t vrng_below(vrng_t *r, uint64_t n) { return n ? vrng_u64(r) % n : 0; }
static inline double vrng_unit(vrng_t *r) { return (double)(vrng_u64(r) >> 11) * (1.0 / 9007199254740992.0); }

static inline uint64_t vmix(uint64_t h, uint64_t v)
{
	h ^= v + 0x9E3779B97F4A7C15ULL + (h << 6) + (h >> 2);
	h *= 0xff51afd7ed558ccdULL;
	h ^= h >> 33;
	return h;
}
static inline uint64_t vhash_bytes(uint64_t h, const void *p, size_t n)
{
	const unsigned char *c = p;
	while(n >= 8) {
		uint64_t w;
		memcpy(&w, c, 8);
		h = vmix(h, w);
		c += 8;
		n -= 8;
	}
	uint64_t w = 0;
	memcpy(&w, c, n);
	return vmix(h, w ^ ((uint64_t)n << 56));
}

/* Violation reporting with a per-key cap (so one noisy key cannot hide the others). Thread-safe. */
#include <pthread.h>
#include <stdarg.h>
#define VV_MAXKEYS 256
static pthread_mutex_t vv_mx = PTHREAD_MUTEX_INITIALIZER;
static struct { char key[96]; unsigned long long n; } vv_tab[VV_MAXKEYS];
static unsigned vv_nkeys;
static unsigned long long vv_total;
__attribute__((format(printf, 3, 4), unused))
static void vviol(const char *prop, const char *key, const char *fmt, ...)
{
	pthread_mutex_lock(&vv_mx);
	vv_total++;
	unsigned i;
	for(i = 0; i < vv_nkeys; ++i)
		if(!strncmp(vv_tab[i].key, key, sizeof(vv_tab[i].key) - 1))
			break;
	if(i == vv_nkeys && vv_nkeys < VV_MAXKEYS) {
		snprintf(vv_tab[i].key, sizeof(vv_tab[i].key), "%s", key);
		vv_tab[i].n = 0;
		vv_nkeys++;
	}
	if(i < VV_MAXKEYS && vv_tab[i].n++ < 3) {
		va_list ap;
		va_start(ap, fmt);
		printf("VKEY %s %s | ", prop, key);
		vprintf(fmt, ap);
		printf("\n");
		fflush(stdout);
		va_end(ap);
	}
	pthread_mutex_unlock(&vv_mx);
}

/* Self-destruct backstop: the driver passes VERIF_BACKSTOP (seconds); an engine orphaned by a killed driver dies by SIGALRM. */
#include <stdlib.h>
#include <unistd.h>
__attribute__((constructor, unused)) static void vbackstop_arm(void)
{
	const char *b = getenv("VERIF_BACKSTOP");
	alarm(b ? (unsigned)atoi(b) : 3600);
}
