/* C17 engine: the real sync_thread_barrier() used U consecutive times by N threads with skewed arrivals.
 * usage: barrier <threads> <uses> <delay_law> <seed>
 *   delay_law: 0 none, 1 random spins before arrival, 2 one slow thread, 3 yields/usleeps inside the spin loops too
 */
#include <core/core.h>
#include <core/sync.h>
#include <verif_hooks.h>

#include <pthread.h>
#include <sched.h>
#include <stdio.h>
#include <stdlib.h>
#include <unistd.h>
#include "vutil.h"

static unsigned N;
static unsigned long U;
static int law;
static uint64_t seed0;
static _Atomic unsigned *arrived;
static _Atomic unsigned char *leaders;
static _Atomic unsigned long done_uses[64]; /* per thread: uses completed (monitor state, updated by its owner only) */
static _Atomic unsigned long entered_uses[64];
static _Atomic int inside[64];
static _Atomic unsigned long long overlaps, spin_iters, spin_delays, early_pass, max_lead;
static __thread unsigned me;
static __thread vrng_t rng;
static __thread unsigned long my_use;

void rs_verif_hook(unsigned point, const void *p, uint64_t a, uint64_t b)
{
	(void)p; (void)a; (void)b;
	switch(point) {
		case VH_BARRIER_ENTER: {
			atomic_store_explicit(&inside[me], 1, memory_order_relaxed);
			atomic_store_explicit(&entered_uses[me], my_use + 1, memory_order_relaxed);
			/* did I enter use k while somebody has not yet left use k-1? (the reuse window) */
			for(unsigned t = 0; t < N; ++t)
				if(t != me && atomic_load_explicit(&done_uses[t], memory_order_relaxed) < my_use) {
					atomic_fetch_add_explicit(&overlaps, 1, memory_order_relaxed);
					break;
				}
			break;
		}
		case VH_BARRIER_SPIN:
			atomic_fetch_add_explicit(&spin_iters, 1, memory_order_relaxed);
			if(law == 3 && vrng_below(&rng, 64) == 0) {
				atomic_fetch_add_explicit(&spin_delays, 1, memory_order_relaxed);
				if(vrng_below(&rng, 8) == 0)
					usleep(1 + (unsigned)vrng_below(&rng, 50));
				else
					sched_yield();
			}
			break;
		case VH_BARRIER_EXIT:
			atomic_store_explicit(&inside[me], 0, memory_order_relaxed);
			break;
		default:
			break;
	}
}

static void *worker(void *arg)
{
	me = (unsigned)(uintptr_t)arg;
	rid = me;
	vrng_seed(&rng, seed0 * 977 + me);
	for(unsigned long k = 0; k < U; ++k) {
		my_use = k;
		if(law == 1 || law == 3) {
			if(vrng_below(&rng, 4) == 0)
				for(volatile int i = 0; i < (int)vrng_below(&rng, 2000); ++i) {}
			if(vrng_below(&rng, 500) == 0)
				sched_yield();
		} else if(law == 2 && me == (k / 1000) % N) {
			for(volatile int i = 0; i < 3000; ++i) {}
			if((k & 255) == 0)
				usleep(20);
		}
		atomic_fetch_add_explicit(&arrived[k], 1, memory_order_seq_cst); /* immediately before the call */
		bool l = sync_thread_barrier();
		unsigned a = atomic_load_explicit(&arrived[k], memory_order_seq_cst);
		if(a != N) {
			atomic_fetch_add(&early_pass, 1);
			vviol("C17", "returned-before-all-entered", "threads=%u use %lu: thread %u returned while only %u of %u threads had entered", N, k, me, a, N);
		}
		if(l) {
			unsigned char prev = atomic_fetch_add_explicit(&leaders[k], 1, memory_order_relaxed);
			if(prev)
				vviol("C17", "more-than-one-leader", "threads=%u use %lu: thread %u is leader number %u", N, k, me, prev + 1);
		}
		atomic_store_explicit(&done_uses[me], k + 1, memory_order_relaxed);
	}
	return NULL;
}

static void *watchdog(void *arg)
{
	(void)arg;
	unsigned long last = 0;
	unsigned stuck = 0;
	while(1) {
		usleep(100000);
		unsigned long sum = 0, mn = ~0UL;
		int all_inside_or_done = 1;
		for(unsigned t = 0; t < N; ++t) {
			unsigned long d = atomic_load(&done_uses[t]);
			sum += d;
			if(d < mn)
				mn = d;
			if(d < U && !atomic_load(&inside[t]))
				all_inside_or_done = 0;
		}
		if(mn >= U)
			return NULL;
		if(sum == last && all_inside_or_done) {
			if(++stuck >= 100) { /* no use completed during 100 samples while every unfinished thread sits inside the barrier */
				char buf[512];
				int o = 0;
				for(unsigned t = 0; t < N && o < 400; ++t)
					o += snprintf(buf + o, sizeof(buf) - o, "t%u:use%lu%s ", t, atomic_load(&entered_uses[t]), atomic_load(&inside[t]) ? "(inside)" : "");
				vviol("C17", "barrier-stalled", "threads=%u: no progress while all unfinished threads are inside the barrier: %s", N, buf);
				printf("STAT cases 1\nSTAT stalled 1\n");
				fflush(stdout);
				_exit(0);
			}
		} else {
			stuck = 0;
		}
		last = sum;
	}
}

int main(int argc, char **argv)
{
	if(argc < 5)
		return 2;
	N = atoi(argv[1]);
	U = strtoul(argv[2], NULL, 0);
	law = atoi(argv[3]);
	seed0 = strtoull(argv[4], NULL, 0);
	global_config.n_threads = N;
	arrived = calloc(U, sizeof(*arrived));
	leaders = calloc(U, 1);
	pthread_t th[64], wd;
	pthread_create(&wd, NULL, watchdog, NULL);
	for(unsigned t = 0; t < N; ++t)
		pthread_create(&th[t], NULL, worker, (void *)(uintptr_t)t);
	for(unsigned t = 0; t < N; ++t)
		pthread_join(th[t], NULL);
	unsigned long no_leader = 0;
	uint64_t sig = N * 1000003ULL + law;
	for(unsigned long k = 0; k < U; ++k)
		if(leaders[k] != 1) {
			if(leaders[k] == 0 && no_leader++ < 3)
				vviol("C17", "no-leader", "threads=%u use %lu: nobody was told to be the leader", N, k);
		}
	printf("STAT cases 1\nSTAT barrier_uses %lu\nSTAT thread_passes %llu\nSTAT uses_entered_before_previous_use_fully_left %llu\nSTAT spin_iterations %llu\nSTAT injected_spin_delays %llu\n",
	    U, (unsigned long long)U * N, (unsigned long long)overlaps, (unsigned long long)spin_iters, (unsigned long long)spin_delays);
	if(overlaps || N == 1)
		printf("STAT nontrivial_runs 1\nSIG %016llx\n", (unsigned long long)vmix(sig, seed0));
	printf("SAMPLE {\"threads\":%u,\"uses\":%lu,\"delay_law\":%d,\"seed\":%llu,\"reuse_overlaps\":%llu}\n", N, U, law, (unsigned long long)seed0, (unsigned long long)overlaps);
	printf("OK barrier\n");
	return 0;
}
