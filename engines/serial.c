/* C10 engine: the core's serial runtime vs the independent reference executor, per generated model.
 * usage: serial <first_seed> <count> <size_class> [term]
 * One process runs many models sequentially (the serial runtime can be re-entered: all its state is re-initialised).
 */
#include "vmodel.h"
#include "vutil.h"
#include <lp/lp.h>
#include <math.h>
#include <stdio.h>
#include <stdlib.h>

struct seq {
	struct ref_ev *ev;
	uint32_t n, cap;
	int inits, finis;
	uint64_t init_at, fini_at; /* global call counters */
	uint64_t first_ev_at, last_ev_at;
	uint64_t fini_digest;
};
static struct seq S[VM_MAXLP];
static uint64_t gcall;
static double last_ts;
static unsigned long long ts_decreases;

static void obs(const struct vm_call *c, const struct vm_state *after)
{
	struct seq *q = &S[c->lp];
	gcall++;
	if(q->n == q->cap) {
		q->cap = q->cap ? q->cap * 2 : 256;
		q->ev = realloc(q->ev, q->cap * sizeof(*q->ev));
	}
	if(!q->n)
		q->first_ev_at = gcall;
	q->last_ev_at = gcall;
	q->ev[q->n++] = (struct ref_ev){.gidx = gcall, .ts = c->now, .type = c->type, .size = c->size, .plh = c->plh, .digest_after = vm_digest(c->lp, after)};
	if(c->now < last_ts)
		ts_decreases++;
	last_ts = c->now;
}
static void obs_init(lp_id_t me, const struct vm_state *s)
{
	(void)s;
	S[me].inits++;
	S[me].init_at = ++gcall;
}
static void obs_fini(lp_id_t me, const struct vm_state *s)
{
	S[me].finis++;
	S[me].fini_at = ++gcall;
	S[me].fini_digest = vm_digest(me, s);
}

static unsigned long long n_models, n_rejected, n_nontrivial, n_events_cmp, n_ties, n_zero, n_initsends, n_term_runs, max_queue_proxy;

#define VIOL(key, ...) vviol("C10", key, __VA_ARGS__)

static void one_model(uint64_t seed, unsigned size_class, int term)
{
	char desc[512];
	vm_generate(seed, size_class);
	global_config.prng_seed = seed ^ 0x5EED;
	double T = 0;
	vm_env = &vm_core_env;
	ref_run((uint64_t)VM.total_target * 30 + 20000, 3000, 2.0);
	vm_describe(desc, sizeof(desc));
	if(!REF.all_terminate) {
		n_rejected++;
		ref_free();
		return;
	}
	/* serial stop rule: an LP is counted when its predicate holds after an event delivered TO IT (never at init) */
	uint64_t stop_g = 0;
	unsigned stop_lp = 0;
	for(unsigned i = 0; i < VM.n_lps; ++i) {
		struct ref_lp *L = &REF.lp[i];
		uint32_t need = L->pred_pos > 0 ? (uint32_t)L->pred_pos : 1;
		if(L->n < need) {
			n_rejected++; /* an LP that is done at init and never receives an event: the serial rule never counts it */
			ref_free();
			return;
		}
		if(L->ev[need - 1].gidx > stop_g) {
			stop_g = L->ev[need - 1].gidx;
			stop_lp = i;
		}
	}
	if(term) {
		/* termination time inside the run: first delivered event with timestamp >= T ends the run (GVT period 0: checked at every event) */
		struct ref_lp *L = &REF.lp[stop_lp];
		uint32_t need = L->pred_pos > 0 ? (uint32_t)L->pred_pos : 1;
		T = L->ev[need - 1].ts * 0.5;
		if(T <= 0) {
			n_rejected++;
			ref_free();
			return;
		}
		stop_g = UINT64_MAX;
		for(unsigned i = 0; i < VM.n_lps; ++i)
			for(uint32_t k = 0; k < REF.lp[i].n; ++k)
				if(REF.lp[i].ev[k].ts >= T) {
					if(REF.lp[i].ev[k].gidx < stop_g) {
						stop_g = REF.lp[i].ev[k].gidx;
						stop_lp = i;
					}
					break;
				}
		n_term_runs++;
	}
	/* the stop event */
	struct ref_ev stop_ev = {0};
	for(uint32_t k = 0; k < REF.lp[stop_lp].n; ++k)
		if(REF.lp[stop_lp].ev[k].gidx == stop_g)
			stop_ev = REF.lp[stop_lp].ev[k];

	memset(S, 0, sizeof(S));
	gcall = 0;
	last_ts = -1;
	vm_observer = obs;
	vm_init_observer = obs_init;
	vm_fini_observer = obs_fini;
	struct simulation_configuration conf = {.lps = VM.n_lps, .n_threads = 1, .termination_time = T, .gvt_period = term ? 0 : 1000,
	    .log_level = LOG_SILENT, .stats_file = NULL, .ckpt_interval = 0, .prng_seed = global_config.prng_seed, .core_binding = false,
	    .serial = true, .dispatcher = vm_process, .committed = vm_can_end};
#ifndef NDEBUG
	lp_initialized = false; /* debug builds refuse SetState() once a run has started: re-arm for the next model */
#endif
	RootsimInit(&conf);
	RootsimRun();
	vm_observer = NULL;
	vm_init_observer = NULL;
	vm_fini_observer = NULL;

	n_models++;
	int bad = 0;
	for(unsigned i = 0; i < VM.n_lps && !bad; ++i) {
		struct seq *q = &S[i];
		struct ref_lp *L = &REF.lp[i];
		if(q->inits != 1 || q->finis != 1) {
			VIOL("init-fini-count", "model %s: LP %u got LP_INIT %d times and LP_FINI %d times", desc, i, q->inits, q->finis);
			bad = 1;
		}
		if(q->n && (q->init_at > q->first_ev_at || q->fini_at < q->last_ev_at)) {
			VIOL("init-fini-order", "model %s: LP %u LP_INIT/LP_FINI not first/last", desc, i);
			bad = 1;
		}
		/* delivered sequence must be a prefix of the reference sequence, content and state after each event */
		uint32_t m = q->n < L->n ? q->n : L->n;
		for(uint32_t k = 0; k < m; ++k) {
			struct ref_ev *a = &q->ev[k], *b = &L->ev[k];
			n_events_cmp++;
			if(a->ts != b->ts || a->type != b->type || a->size != b->size || a->plh != b->plh) {
				VIOL("dispatch-sequence-differs", "model %s: LP %u event #%u is {t=%a,type=%u,size=%u,plh=%llx}, reference delivers {t=%a,type=%u,size=%u,plh=%llx}",
				    desc, i, k, a->ts, a->type, a->size, (unsigned long long)a->plh, b->ts, b->type, b->size, (unsigned long long)b->plh);
				bad = 1;
				break;
			}
			if(a->digest_after != b->digest_after) {
				VIOL("state-after-event-differs", "model %s: LP %u state after event #%u differs from the reference", desc, i, k);
				bad = 1;
				break;
			}
		}
		if(bad)
			break;
		if(q->n > L->n) {
			VIOL("ran-past-reference-horizon", "model %s: LP %u received %u events, the reference (run well past the stop point) only %u", desc, i, q->n, L->n);
			bad = 1;
			break;
		}
		/* stop point: everything ordered strictly before the stop event was delivered, nothing ordered strictly after it.
		 * Events with the same (timestamp, type, size) as the stop event form a tolerance zone (their mutual order may be arbitrary). */
		uint32_t lower = 0, upper = 0;
		for(uint32_t k = 0; k < L->n; ++k) {
			struct ref_ev *e = &L->ev[k];
			int same = e->ts == stop_ev.ts && e->type == stop_ev.type && e->size == stop_ev.size;
			if(e->gidx <= stop_g && !same)
				lower = k + 1;
			if(e->gidx <= stop_g || same)
				upper = k + 1;
		}
		if(i == stop_lp && q->n < upper && q->n < lower + 1) {
			/* the stop event itself must have been delivered */
		}
		if(q->n < lower) {
			VIOL(term ? "stopped-early-termination-time" : "stopped-early", "model %s: LP %u received %u events; %u of its events are ordered before the stop event {t=%a,type=%u}", desc, i, q->n,
			    lower, stop_ev.ts, stop_ev.type);
			bad = 1;
		} else if(q->n > upper) {
			VIOL(term ? "stopped-late-termination-time" : "stopped-late", "model %s: LP %u received %u events; only %u are ordered at or before the stop event {t=%a,type=%u}", desc, i, q->n,
			    upper, stop_ev.ts, stop_ev.type);
			bad = 1;
		}
		if(!bad && q->n && q->fini_digest != q->ev[q->n - 1].digest_after) {
			VIOL("state-changed-before-fini", "model %s: LP %u state at LP_FINI differs from the state after its last event", desc, i);
			bad = 1;
		}
	}
	if(ts_decreases) {
		VIOL("timestamp-order", "model %s: %llu dispatches had a timestamp lower than the previous dispatch", desc, ts_decreases);
		ts_decreases = 0;
	}
	int nontrivial = REF.events_with_tie > 0 || REF.zero_delay_sends > 0 || REF.init_sends > 0;
	n_nontrivial += nontrivial;
	n_ties += REF.events_with_tie;
	n_zero += REF.zero_delay_sends;
	n_initsends += REF.init_sends;
	if(nontrivial) {
		uint64_t sig = seed;
		for(unsigned i = 0; i < VM.n_lps; ++i)
			sig = vmix(sig, S[i].n ? S[i].ev[S[i].n - 1].digest_after : 0);
		printf("SIG %016llx\n", (unsigned long long)sig);
	}
	if(n_models <= 2)
		printf("SAMPLE {\"model\":%s,\"reference_events_to_stop\":%llu,\"ties\":%llu,\"zero_delay_sends\":%llu,\"serial_dispatches\":%llu,\"term_time\":%g}\n", desc,
		    (unsigned long long)REF.total_events, (unsigned long long)REF.events_with_tie, (unsigned long long)REF.zero_delay_sends, (unsigned long long)gcall, T);
	for(unsigned i = 0; i < VM.n_lps; ++i) {
		free(S[i].ev);
		S[i].ev = NULL;
	}
	ref_free();
}

int main(int argc, char **argv)
{
	if(argc < 4)
		return 2;
	uint64_t first = strtoull(argv[1], NULL, 0);
	unsigned count = atoi(argv[2]), size_class = atoi(argv[3]);
	int term = argc > 4 ? atoi(argv[4]) : 0;
	for(unsigned k = 0; k < count; ++k)
		one_model(first + k, size_class, term);
	printf("STAT cases %llu\nSTAT models_run %llu\nSTAT models_rejected %llu\nSTAT nontrivial_models %llu\nSTAT events_compared %llu\nSTAT reference_tie_deliveries %llu\n"
	       "STAT zero_delay_sends %llu\nSTAT init_time_sends %llu\nSTAT termination_time_runs %llu\n",
	    n_models, n_models, n_rejected, n_nontrivial, n_events_cmp, n_ties, n_zero, n_initsends, n_term_runs);
	printf("OK serial\n");
	return 0;
}
