/* sim engine: one generated model, one configuration, one perturbation seed -> one process.
 * Runs the reference executor, then the real parallel runtime (single node) with all monitors on.
 *
 * usage: sim <model_seed> <size_class> <threads> <ckpt_interval> <gvt_period_us> <perturb_seed> <fp_level> <variant> [stats_prefix]
 *   variant: 0 run ends by predicates, 1 by a termination time, 2 by RootsimStop() from a handler, 3 RootsimStop at timestamp 0
 */
#include "vmodel.h"
#include "vhook.h"
#include "vutil.h"
#include <lp/lp.h>

#include <math.h>
#include <pthread.h>
#include <stdio.h>
#include <stdlib.h>
#include <time.h>
#include <unistd.h>

static struct {
	int inits, finis;
	uint64_t fini_digest;
	int fini_pred;
	uint64_t fini_count;
	int fini_thread;
} R[VM_MAXLP];
static _Atomic unsigned long long dispatches; /* forward + silent + init, counted at the model side (API boundary) */
static _Atomic int run_returned;
static int variant;
static double term_time;
static _Atomic int stop_called_flag;
static void stop_wrapper(void)
{
	atomic_store(&stop_called_flag, 1);
	RootsimStop();
}

static void obs_init(lp_id_t me, const struct vm_state *s)
{
	(void)s;
	__atomic_fetch_add(&R[me].inits, 1, __ATOMIC_RELAXED);
	atomic_fetch_add(&dispatches, 1);
}
static void obs_fini(lp_id_t me, const struct vm_state *s)
{
	__atomic_fetch_add(&R[me].finis, 1, __ATOMIC_RELAXED);
	R[me].fini_digest = vm_digest(me, s);
	R[me].fini_pred = vm_can_end(me, s);
	R[me].fini_count = s ? s->count : 0;
	R[me].fini_thread = (int)rid;
}
static void obs_ev(const struct vm_call *c, const struct vm_state *after)
{
	(void)c; (void)after;
	atomic_fetch_add_explicit(&dispatches, 1, memory_order_relaxed);
}

static uint64_t cb_state_digest(struct lp_ctx *lp)
{
	if(lp->state_pointer)
		return vm_digest((lp_id_t)(lp - lps), lp->state_pointer);
	/* an LP without a registered state still has rollbackable state: its library generator context */
	const uint64_t *w = lp->rng_ctx->state;
	return w[0] ^ (w[1] * 3) ^ (w[2] * 5) ^ (w[3] * 7);
}
static bool cb_ref_event(uint64_t lp, uint64_t k, double *ts, uint32_t *type, uint32_t *size, uint64_t *plh)
{
	if(lp >= VM.n_lps || k >= REF.lp[lp].n)
		return false;
	const struct ref_ev *e = &REF.lp[lp].ev[k];
	*ts = e->ts;
	*type = e->type;
	*size = e->size;
	*plh = e->plh;
	return true;
}

static bool cb_ref_pred_ts(uint64_t lp, double *ts)
{
	if(lp >= VM.n_lps || REF.lp[lp].pred_pos < 0 || (uint64_t)REF.lp[lp].pred_pos > REF.lp[lp].n)
		return false;
	*ts = REF.lp[lp].pred_pos == 0 ? -1.0 : REF.lp[lp].ev[REF.lp[lp].pred_pos - 1].ts;
	return true;
}

static unsigned long long step_budget;
#ifdef SIM_MPI
extern unsigned long long pmpi_shim_improbe_delays(void), pmpi_shim_test_delays(void);
#endif

static void *watchdog(void *arg)
{
	(void)arg;
	unsigned long long last = 0, drain_base = 0;
	unsigned same = 0;
	int in_drain = 0;
	while(!atomic_load(&run_returned)) {
		usleep(50000);
		unsigned long long p = vh_progress();
		if(p == last) {
			if(++same >= 240) { /* 12 s without a single stage change, phase change or executed event on any thread */
				char buf[2048], sig[512];
				vh_describe_threads(buf, sizeof(buf), sig, sizeof(sig));
				vh_violation("C08", "hang", "no thread changed state for 12 s :: signature=%s :: %s", sig, buf);
				printf("HANGSIG %s\n", sig);
				fflush(stdout);
				if(getenv("OMPI_COMM_WORLD_RANK"))
					sleep(3); /* let the watchdogs of the other ranks write their picture too before the launcher kills them */
				_exit(3);
			}
		} else {
			same = 0;
		}
		last = p;
		/* memory backstop: unbounded optimism (e.g. one starved thread) can make a run allocate without limit: inconclusive, not a verdict */
		{
			FILE *f = fopen("/proc/self/statm", "r");
			unsigned long sz = 0, rss = 0;
			if(f) {
				if(fscanf(f, "%lu %lu", &sz, &rss) != 2)
					rss = 0;
				fclose(f);
			}
			if(rss * 4096UL > 3UL * 1024 * 1024 * 1024) {
				printf("STAT memory_backstop 1\nMEMORY-BACKSTOP rss=%lu MiB\n", rss * 4096UL >> 20);
				fflush(stdout);
				_exit(4);
			}
		}
		/* Bounded progress, as the property states it: once the termination condition holds - the GVT handed to every thread is beyond the
		 * point where the last predicate became true in the sequential run / reached the termination time / RootsimStop() was called -
		 * the run must return within a bounded number of further GVT reductions. */
		{
			double g = SIMTIME_MAX;
			unsigned nt = 0;
			for(unsigned t = 0; t < VH_MAXTHR; ++t)
				if(vh_thread_seen(t)) {
					nt++;
					if(vh_thread_last_gvt(t) < g)
						g = vh_thread_last_gvt(t);
				}
			int cond = nt && ((variant == 0 && REF.all_terminate && g > REF.stop_ts) || (variant == 1 && g >= term_time) || (variant >= 2 && atomic_load(&stop_called_flag)));
			unsigned long long rounds = vh_counter_total(VC_GVT_ROUNDS);
			static unsigned long long rounds0;
			static int cond_seen;
			if(cond && !cond_seen) {
				cond_seen = 1;
				rounds0 = rounds;
			} else if(cond_seen && rounds - rounds0 > 80ULL * nt + 200) {
				char buf[2048], sig[512];
				vh_describe_threads(buf, sizeof(buf), sig, sizeof(sig));
				vh_violation("C08", "runaway:termination-condition-holds", "the termination condition has held for %llu GVT values (GVT %g, sequential end point %g, termination time %g, stop called %d) and the run has not returned :: %s",
				    rounds - rounds0, g, REF.stop_ts, term_time, (int)atomic_load(&stop_called_flag), buf);
				printf("HANGSIG runaway-after-condition\n");
				fflush(stdout);
				_exit(3);
			}
		}
		/* wall-clock backstop inside the engine (90 s; a normal case takes 0.1-5 s): no verdict */
		{
			static time_t t_start;
			if(!t_start)
				t_start = time(NULL);
			if(time(NULL) - t_start > 90) {
				printf("STAT event_budget_exceeded 1\nBUDGET-EXCEEDED wall clock, %llu forward executions, %llu GVT values consumed\n", vh_counter_total(VC_FWD), vh_counter_total(VC_GVT_ROUNDS));
				fflush(stdout);
				_exit(5);
			}
		}
		/* pure event budget: optimism is unbounded in the core and an adversarial schedule can make it thrash (observed: 2.4M executions for a
		 * 17k-event model under the baton scheduler, GVT advancing all the time): no verdict, the case is inconclusive */
		unsigned long long fw = vh_counter_total(VC_FWD);
		if(fw > step_budget) {
			printf("STAT event_budget_exceeded 1\nBUDGET-EXCEEDED %llu forward executions, %llu GVT values consumed\n", fw, vh_counter_total(VC_GVT_ROUNDS));
			fflush(stdout);
			_exit(5);
		}
		char buf[64], sig[512];
		vh_describe_threads(buf, sizeof(buf), sig, sizeof(sig));
		if(!strstr(sig, "loop") && !strstr(sig, "init") && !strstr(sig, "not-started")) {
			if(!in_drain) {
				in_drain = 1;
				drain_base = p;
			} else if(p - drain_base > 3000000ULL) {
				char b2[2048];
				vh_describe_threads(b2, sizeof(b2), sig, sizeof(sig));
				vh_violation("C08", "runaway:shutdown", "shutdown keeps changing state without finishing (%llu transitions since every thread left the main loop) :: signature=%s :: %s", p - drain_base, sig, b2);
				printf("HANGSIG runaway-shutdown:%s\n", sig);
				fflush(stdout);
				_exit(3);
			}
		}
	}
	return NULL;
}

int main(int argc, char **argv)
{
	if(argc < 9) {
		fprintf(stderr, "usage\n");
		return 2;
	}
	uint64_t mseed = strtoull(argv[1], NULL, 0);
	unsigned size_class = atoi(argv[2]), threads = atoi(argv[3]), ckpt = atoi(argv[4]), gvt_us = atoi(argv[5]);
	uint64_t pseed = strtoull(argv[6], NULL, 0);
	unsigned fp_level = atoi(argv[7]);
	variant = atoi(argv[8]);
	const char *stats_prefix = argc > 9 ? argv[9] : NULL;
	char desc[600];
	/* under mpiexec every rank writes its own result file (the launcher would interleave the streams) */
	const char *rank_env = getenv("OMPI_COMM_WORLD_RANK"), *out_env = getenv("VERIF_OUT");
	if(rank_env && out_env) {
		char fn[600];
		snprintf(fn, sizeof(fn), "%s.%s", out_env, rank_env);
		if(!freopen(fn, "w", stdout))
			return 2;
	}
	if(stats_prefix && !strcmp(stats_prefix, "-"))
		stats_prefix = NULL;

	vm_generate(mseed, size_class);
	global_config.prng_seed = mseed ^ 0x5EED;
	global_config.log_level = LOG_SILENT;
	/* variants are part of the model: the reference must see the same RootsimStop() */
	if(variant == 2 || variant == 3) {
		VM.stop_lp = (int)(mseed % VM.n_lps);
		if(VM.target[VM.stop_lp] < 2)
			VM.target[VM.stop_lp] = 40;
		VM.stop_at = variant == 3 ? 1 : 1 + (uint32_t)((mseed >> 8) % VM.target[VM.stop_lp]);
		if(variant == 3)
			VM.init_ts0 = 1;
	}
	vm_env = &vm_core_env;
	vm_core_env.stop = stop_wrapper;
	ref_run((uint64_t)VM.total_target * 30 + 20000, 4000, 3.0);
	/* clustered terminations: every LP is also done at its first event at or after a common timestamp, a fraction (percent, from the
	 * environment) of the time the count-based run needs; the reference is redone with that model */
	const char *ec = getenv("VM_END_CLUSTER");
	if(ec && atoi(ec) > 0 && variant < 2 && REF.all_terminate && REF.stop_ts > 0) {
		double e = REF.stop_ts * atoi(ec) / 100.0;
		ref_free();
		VM.end_ts = e;
		ref_run((uint64_t)VM.total_target * 30 + 20000, 4000, 3.0);
	}
	vm_describe(desc, sizeof(desc));
	const char *wsz = getenv("OMPI_COMM_WORLD_SIZE");
	if(wsz && (unsigned)atoi(wsz) > VM.n_lps) { /* more ranks than LPs: outside the stated domain */
		printf("STAT models_rejected 1\nOK sim\n");
		return 0;
	}
	if(!REF.all_terminate && variant < 2) {
		printf("STAT models_rejected 1\nOK sim\n");
		return 0;
	}
	if(variant == 1) {
		term_time = REF.stop_ts * 0.6;
		if(term_time <= 0) {
			printf("STAT models_rejected 1\nOK sim\n");
			return 0;
		}
	}
	step_budget = 60ULL * (REF.delivered + 20000);

	vh_cfg.perturb_seed = pseed;
	if(fp_level >= 10) { /* serialized, seeded scheduling instead of random delays */
		vh_cfg.baton = true;
		fp_level = 0;
	}
	vh_cfg.fp_level = fp_level;
	vh_cfg.monitors = true;
	vh_cfg.poison = true;
	vh_cfg.check_commit = true;
	vh_cfg.monotone_predicates = true;
	vh_cfg.digest_budget = 48 * 1024;
	vh_cfg.state_digest = cb_state_digest;
	vh_cfg.ref_event = cb_ref_event;
	vh_cfg.payload_hash = vm_payload_hash;
	vh_cfg.ref_pred_ts = cb_ref_pred_ts;

	vm_observer = obs_ev;
	vm_init_observer = obs_init;
	vm_fini_observer = obs_fini;

	char sf[512] = "";
	if(stats_prefix)
		snprintf(sf, sizeof(sf), "%s", stats_prefix);
	struct simulation_configuration conf = {.lps = VM.n_lps, .n_threads = threads, .termination_time = term_time, .gvt_period = gvt_us,
	    .log_level = LOG_SILENT, .stats_file = stats_prefix ? sf : NULL, .ckpt_interval = ckpt, .prng_seed = global_config.prng_seed,
	    .core_binding = false, .serial = false, .dispatcher = vm_process, .committed = vm_can_end};
	/* thread-to-core binding is a configuration dimension of C09: used in serialized (baton) runs only, where pinning thread i of every
	 * concurrently running case to core i cannot turn spin loops into artefacts */
	if(vh_cfg.baton && getenv("VERIF_CORE_BINDING") && (pseed % 2) == 0) {
		conf.core_binding = true;
		printf("STAT runs_with_core_binding 1\n");
	}
	pthread_t wd;
	pthread_create(&wd, NULL, watchdog, NULL);
	if(RootsimInit(&conf)) {
		printf("HARNESS-ERROR RootsimInit failed\n");
		return 2;
	}
	int rc = RootsimRun();
	atomic_store(&run_returned, 1);
	pthread_join(wd, NULL);
	(void)rc;

	vh_post_run_checks();
	unsigned eff_threads = vh_threads_seen();
	double max_gvt = 0;
	for(unsigned t = 0; t < VH_MAXTHR; ++t)
		if(vh_thread_last_gvt(t) > max_gvt)
			max_gvt = vh_thread_last_gvt(t);

	/* LPs hosted by this rank */
	unsigned lp_lo = (unsigned)lid_node_first, lp_hi = (unsigned)(lid_node_first + n_lps_node);
	printf("LPRANGE %d %d %u %u %u\n", nid, n_nodes, lp_lo, lp_hi, VM.n_lps);
	/* ---- C08: LP_FINI exactly once per LP (the run returned, otherwise the watchdog would have ended the process) ---- */
	for(unsigned i = lp_lo; i < lp_hi; ++i) {
		if(R[i].inits != 1)
			vh_violation("C14", "lp-init-count", "model %s: LP %u received LP_INIT %d times", desc, i, R[i].inits);
		if(R[i].finis != 1)
			vh_violation("C08", "lp-fini-count", "model %s: LP %u received LP_FINI %d times", desc, i, R[i].finis);
		if(R[i].finis && vh_lp_owner(i) != R[i].fini_thread)
			vh_violation("C14", "lp-finalised-by-non-owner", "LP %u initialised on thread %d, finalised on thread %d", i, vh_lp_owner(i), R[i].fini_thread);
	}
	/* ---- C01: frozen models observe exactly the sequential result (runs ended by predicates only) ---- */
	unsigned long long c01_checked = 0;
	if(variant == 0) {
		for(unsigned i = lp_lo; i < lp_hi; ++i) {
			if(!R[i].finis)
				continue;
			c01_checked++;
			if(R[i].fini_digest != REF.lp[i].pred_digest)
				vh_violation(n_nodes > 1 ? "C02" : "C01", "final-state-differs-from-sequential", "model %s threads=%u ckpt=%u gvt=%uus: LP %u state at LP_FINI (events counted %llu) differs from the sequential state at the point its predicate first held (after %lld events)",
				    desc, threads, ckpt, gvt_us, i, (unsigned long long)R[i].fini_count, (long long)REF.lp[i].pred_pos);
		}
	}
	/* ---- C07: no premature termination ---- */
	unsigned long long c07_checked = 0;
	if(variant == 0 || variant == 1) {
		int time_reached = variant == 1 && max_gvt >= term_time;
		for(unsigned i = lp_lo; i < lp_hi && !time_reached; ++i) {
			c07_checked++;
			if(!R[i].fini_pred)
				vh_violation("C07", "ended-with-predicate-false", "model %s threads=%u: the run returned (final GVT %a, termination time %a) while LP %u does not satisfy its predicate (processed %llu of %u events)",
				    desc, threads, max_gvt, term_time, i, (unsigned long long)R[i].fini_count, VM.target[i]);
			else if(REF.lp[i].pred_pos >= 0 && vh_lp_committed(i) < (uint64_t)REF.lp[i].pred_pos && vh_counter_total(VC_COMMIT_BEYOND_REF) == 0 && vh_violation_count() == 0)
				vh_violation("C07", "ended-before-predicate-state-committed", "model %s threads=%u: LP %u has %llu committed events at the end, its predicate first holds after %lld",
				    desc, threads, i, (unsigned long long)vh_lp_committed(i), (long long)REF.lp[i].pred_pos);
		}
	}
	if(variant == 1 && max_gvt < term_time) {
		/* allowed only if every predicate was committed (checked above) */
	}

	/* ---- output ---- */
	uint64_t res = mseed;
	for(unsigned i = lp_lo; i < lp_hi; ++i) {
		res = vmix(res, R[i].fini_digest);
		if(variant == 0)
			printf("LPD %u %016llx\n", i, (unsigned long long)R[i].fini_digest);
	}
	unsigned long long rb = vh_counter_total(VC_ROLLBACK), anti = vh_counter_total(VC_ANTI_LOCAL);
	unsigned long long coast = vh_counter_total(VC_RB_COAST1) + vh_counter_total(VC_RB_COAST_MANY);
	int nontrivial = rb > 0 && coast > 0 && anti > 0;
	printf("STAT cases 1\nSTAT nontrivial_cases %d\nSTAT c01_lps_compared %llu\nSTAT c07_lps_checked %llu\nSTAT model_dispatches %llu\nSTAT runs_variant_%d 1\n", nontrivial,
	    c01_checked, c07_checked, (unsigned long long)dispatches, variant);
	for(int c = 0; c < VC_COUNT; ++c) {
		if(!strncmp(vh_counter_name[c], "unused", 6))
			continue;
		if(c == VC_DEPTH_MAX || c == VC_COAST_MAX)
			printf("MAX %s %llu\n", vh_counter_name[c], vh_counter_total(c));
		else
			printf("STAT %s %llu\n", vh_counter_name[c], vh_counter_total(c));
	}
	printf("STAT threads_effective_%u 1\n", eff_threads);
	printf("STAT message_buffers_not_handed_back_at_exit %lld\n", vh_unreleased_messages() > 0 ? vh_unreleased_messages() : 0);
	if(vh_cfg.baton)
		printf("STAT baton_runs 1\nSTAT baton_switches %llu\n", vh_baton_switches());
	if(VM.sparse_lp >= 0 && (unsigned)VM.sparse_lp >= lp_lo && (unsigned)VM.sparse_lp < lp_hi)
		printf("STAT sparse_lp_models 1\nSTAT sparse_lp_events_undone %u\nSTAT sparse_lp_models_with_undone_event %d\n", vh_lp_undone((uint64_t)VM.sparse_lp), vh_lp_undone((uint64_t)VM.sparse_lp) > 0);
	if(nontrivial)
		printf("SIG %016llx\n", (unsigned long long)vmix(vh_schedule_signature(), mseed));
	if(variant == 0 && n_nodes == 1)
		printf("RESULT %llu %016llx\n", (unsigned long long)mseed, (unsigned long long)res);
#ifdef SIM_MPI
	printf("STAT mpi_improbe_delays_injected %llu\nSTAT mpi_test_delays_injected %llu\nSTAT ranks_%d 1\n", pmpi_shim_improbe_delays(), pmpi_shim_test_delays(), n_nodes);
#endif
	/* per-thread GVT windows for the statistics check (C20) */
	for(unsigned t = 0; t < VH_MAXTHR; ++t) {
		const struct vh_window *w;
		unsigned n = vh_thread_windows(t, &w);
		for(unsigned k = 0; k < n; ++k)
			printf("WIN %u %u %a %llu %llu %llu %llu %llu %llu\n", t, k, w[k].gvt, w[k].fwd, w[k].rollbacks, w[k].undone, w[k].silent, w[k].ckpt, w[k].anti);
		if(n || t < eff_threads) {
			struct vh_window o = vh_thread_open_window(t);
			printf("WINOPEN %u %llu %llu %llu %llu %llu %llu\n", t, o.fwd, o.rollbacks, o.undone, o.silent, o.ckpt, o.anti);
		}
	}
	printf("SAMPLE {\"model\":%s,\"threads\":%u,\"ckpt_interval\":%u,\"gvt_period_us\":%u,\"perturb_seed\":%llu,\"fp_level\":%u,\"variant\":%d,\"rollbacks\":%llu,\"max_depth\":%llu,\"anti\":%llu,\"gvt_rounds\":%llu,\"final_gvt\":%g}\n",
	    desc, threads, ckpt, gvt_us, (unsigned long long)pseed, fp_level, variant, rb, vh_counter_total(VC_DEPTH_MAX), anti, vh_counter_total(VC_GVT_ROUNDS), max_gvt);
	printf("OK sim\n");
	fflush(stdout);
	return 0;
}
