/* PMPI shim linked into the mpi flavour of the sim engine: injects only behaviour MPI permits.
 *  - MPI_Improbe answering "nothing pending" although something may be (arbitrary finite delivery delay)
 *  - MPI_Test answering "not complete" (arbitrary completion time of the non-blocking collectives)
 * Sender/receiver thread skew is injected at the VH_MPI_SEND / VH_MPI_RECV hook points (vhook.c).
 * The real library keeps matching and ordering semantics, so no order MPI forbids can be produced. */
#include <mpi.h>
#include <stdint.h>
#include <stdlib.h>
#include <stdatomic.h>

static __thread uint64_t st;
static unsigned rate = 0; /* one in `rate` calls is answered negatively without asking the library */
static _Atomic unsigned long long n_improbe_lies, n_test_lies;
static int inited;

static uint64_t nx(void)
{
	if(!st)
		st = (uint64_t)(uintptr_t)&st * 0x9E3779B97F4A7C15ULL + 1;
	uint64_t z = (st += 0x9E3779B97F4A7C15ULL);
	z = (z ^ (z >> 30)) * 0xBF58476D1CE4E5B9ULL;
	z = (z ^ (z >> 27)) * 0x94D049BB133111EBULL;
	return z ^ (z >> 31);
}
static void init(void)
{
	if(inited)
		return;
	const char *e = getenv("VERIF_MPI_FAULT");
	rate = e ? (unsigned)atoi(e) : 0;
	inited = 1;
}

int MPI_Improbe(int source, int tag, MPI_Comm comm, int *flag, MPI_Message *message, MPI_Status *status)
{
	init();
	if(rate && nx() % rate == 0) {
		atomic_fetch_add_explicit(&n_improbe_lies, 1, memory_order_relaxed);
		*flag = 0;
		return MPI_SUCCESS;
	}
	return PMPI_Improbe(source, tag, comm, flag, message, status);
}

int MPI_Test(MPI_Request *request, int *flag, MPI_Status *status)
{
	init();
	if(rate && nx() % (rate / 2 + 1) == 0) {
		atomic_fetch_add_explicit(&n_test_lies, 1, memory_order_relaxed);
		*flag = 0;
		return MPI_SUCCESS;
	}
	return PMPI_Test(request, flag, status);
}

unsigned long long pmpi_shim_improbe_delays(void) { return n_improbe_lies; }
unsigned long long pmpi_shim_test_delays(void) { return n_test_lies; }
