/* C14 engine: runs the REAL lp_global_init()/lp_init()/lp_fini() and routing macros of lp/lp.c for every rank and
 * thread of a (LPs, ranks, threads) triple; the heavy callees are stubbed and record who initialised what.
 * usage: part box <maxL> <maxR> <maxT>       exhaustive box
 *        part big <count> <seed>            random large triples, boundaries only
 */
#include <stdint.h>
#include <stdio.h>
#include <stdlib.h>
#include <string.h>
#include "vutil.h"

#include <lp/lp.c> /* the real code under test */

/* ---- globals the rest of the core would define ---- */
__thread rid_t rid;
nid_t n_nodes = 1;
nid_t nid;
struct simulation_configuration global_config;

/* ---- stubs of the callees ---- */
struct owner {
	int nid, rid, inits, finis;
};
static struct owner *own;
static uint64_t own_n;
static int cur_nid;

void vlogger(enum log_level level, char *file, unsigned line, const char *fmt, ...)
{
	(void)level; (void)file; (void)line; (void)fmt;
}
void model_allocator_lp_init(struct mm_state *self) { (void)self; }
void model_allocator_lp_fini(struct mm_state *self) { (void)self; }
static struct rng_ctx dummy_rng;
void *rs_malloc(size_t s) { (void)s; return &dummy_rng; }
void random_lib_lp_init(lp_id_t lp_id, struct rng_ctx *ctx) { (void)lp_id; (void)ctx; }
void auto_ckpt_lp_init(struct auto_ckpt *a) { (void)a; }
void termination_lp_init(struct lp_ctx *lp) { (void)lp; }
void process_lp_init(struct lp_ctx *lp)
{
	uint64_t id = lp - lps;
	if(id < own_n) {
		own[id].inits++;
		own[id].nid = cur_nid;
		own[id].rid = (int)rid;
	} else {
		printf("VKEY C14 init-out-of-range | lp %llu initialised but only %llu LPs exist\n", (unsigned long long)id,
		    (unsigned long long)own_n);
	}
}
void process_lp_fini(struct lp_ctx *lp)
{
	uint64_t id = lp - lps;
	if(id < own_n) {
		own[id].finis++;
		if(own[id].nid != cur_nid || own[id].rid != (int)rid)
			printf("VKEY C14 fini-by-other-owner | lp %llu init by (%d,%d) fini by (%d,%u)\n",
			    (unsigned long long)id, own[id].nid, own[id].rid, cur_nid, rid);
	}
}

static unsigned long long n_viol, n_triples, n_nontrivial, n_lp_checked, n_clamped;
#define VIOL(key, ...) do { n_viol++; vviol("C14", key, __VA_ARGS__); } while(0)

static void one_triple(uint64_t L, unsigned R, unsigned T)
{
	n_triples++;
	n_nontrivial += (L % ((uint64_t)R * T) != 0) || L < T;
	own_n = L;
	memset(own, 0, sizeof(*own) * L);
	uint64_t expect_first = 0;
	for(unsigned r = 0; r < R; ++r) {
		nid = cur_nid = (int)r;
		n_nodes = (nid_t)R;
		global_config.lps = L;
		global_config.n_threads = T;
		lp_global_init();
		if(lid_node_first != expect_first)
			VIOL("node-range-gap", "L=%llu R=%u T=%u rank %u starts at %llu, previous ended at %llu",
			    (unsigned long long)L, R, T, r, (unsigned long long)lid_node_first, (unsigned long long)expect_first);
		if(n_lps_node == 0)
			VIOL("empty-node", "L=%llu R=%u T=%u rank %u hosts no LP", (unsigned long long)L, R, T, r);
		expect_first = lid_node_first + n_lps_node;
		unsigned eff_t = global_config.n_threads;
		n_clamped += eff_t != T;
		if(eff_t > T || eff_t == 0 || (n_lps_node >= T && eff_t != T))
			VIOL("thread-clamp", "L=%llu R=%u T=%u rank %u: %llu LPs, effective threads %u", (unsigned long long)L, R, T,
			    r, (unsigned long long)n_lps_node, eff_t);
		uint64_t texp = lid_node_first;
		for(unsigned t = 0; t < eff_t; ++t) {
			rid = t;
			lp_init();
			if(lid_thread_first != texp)
				VIOL("thread-range-gap", "L=%llu R=%u T=%u rank %u thread %u starts at %llu expected %llu",
				    (unsigned long long)L, R, T, r, t, (unsigned long long)lid_thread_first,
				    (unsigned long long)texp);
			if(lid_thread_end <= lid_thread_first)
				VIOL("thread-without-work", "L=%llu R=%u T=%u rank %u thread %u of %u has range [%llu,%llu) while the rank hosts %llu LPs",
				    (unsigned long long)L, R, T, r, t, eff_t, (unsigned long long)lid_thread_first,
				    (unsigned long long)lid_thread_end, (unsigned long long)n_lps_node);
			texp = lid_thread_end;
			/* routing agrees with ownership (macros evaluated with this rank's state) */
			for(uint64_t i = lid_thread_first; i < lid_thread_end && i < L; ++i) {
				n_lp_checked++;
				if(lid_to_nid(i) != (nid_t)r)
					VIOL("route-node", "L=%llu R=%u T=%u lp %llu owned by rank %u, routed to rank %d",
					    (unsigned long long)L, R, T, (unsigned long long)i, r, lid_to_nid(i));
				if(lid_to_rid(i) != t)
					VIOL("route-thread", "L=%llu R=%u T=%u lp %llu owned by (rank %u, thread %u), routed to thread %u",
					    (unsigned long long)L, R, T, (unsigned long long)i, r, t, lid_to_rid(i));
			}
			lp_fini();
		}
		if(texp != lid_node_first + n_lps_node)
			VIOL("thread-range-cover", "L=%llu R=%u T=%u rank %u threads end at %llu, node ends at %llu",
			    (unsigned long long)L, R, T, r, (unsigned long long)texp,
			    (unsigned long long)(lid_node_first + n_lps_node));
		lp_global_fini();
	}
	if(expect_first != L)
		VIOL("node-range-cover", "L=%llu R=%u T=%u ranks cover up to %llu", (unsigned long long)L, R, T,
		    (unsigned long long)expect_first);
	for(uint64_t i = 0; i < L; ++i)
		if(own[i].inits != 1 || own[i].finis != 1) {
			VIOL("owner-count", "L=%llu R=%u T=%u lp %llu initialised %d times, finalised %d times",
			    (unsigned long long)L, R, T, (unsigned long long)i, own[i].inits, own[i].finis);
			break;
		}
}

/* large triples: no per-LP loop; boundaries through the same partition_start macro and routing macros */
static void big_triple(uint64_t L, unsigned R, unsigned T)
{
	n_triples++;
	n_nontrivial++;
	uint64_t expect_first = 0;
	for(unsigned r = 0; r < R; ++r) {
		nid = (int)r;
		n_nodes = (nid_t)R;
		global_config.lps = L;
		global_config.n_threads = T;
		lid_node_first = partition_start(nid, n_nodes, lid_to_nid, 0, global_config.lps);
		n_lps_node = partition_start(nid + 1, n_nodes, lid_to_nid, 0, global_config.lps) - lid_node_first;
		if(lid_node_first != expect_first || n_lps_node == 0)
			VIOL("big-node-range", "L=%llu R=%u rank %u first %llu expected %llu count %llu", (unsigned long long)L, R, r,
			    (unsigned long long)lid_node_first, (unsigned long long)expect_first, (unsigned long long)n_lps_node);
		expect_first = lid_node_first + n_lps_node;
		if(lid_to_nid(lid_node_first) != (nid_t)r || lid_to_nid(expect_first - 1) != (nid_t)r ||
		    (r && lid_to_nid(lid_node_first - 1) != (nid_t)r - 1))
			VIOL("big-route-node", "L=%llu R=%u rank %u boundaries mis-routed", (unsigned long long)L, R, r);
		unsigned eff_t = n_lps_node < T ? (unsigned)n_lps_node : T;
		global_config.n_threads = eff_t;
		uint64_t texp = lid_node_first;
		for(unsigned t = 0; t < eff_t; ++t) {
			rid = t;
			uint64_t f = partition_start(rid, global_config.n_threads, lid_to_rid, lid_node_first, n_lps_node);
			uint64_t e = partition_start(rid + 1, global_config.n_threads, lid_to_rid, lid_node_first, n_lps_node);
			n_lp_checked += 2;
			if(f != texp || e <= f)
				VIOL("big-thread-range", "L=%llu R=%u T=%u rank %u thread %u range [%llu,%llu) expected start %llu",
				    (unsigned long long)L, R, T, r, t, (unsigned long long)f, (unsigned long long)e,
				    (unsigned long long)texp);
			else if(lid_to_rid(f) != t || lid_to_rid(e - 1) != t)
				VIOL("big-route-thread", "L=%llu R=%u T=%u rank %u thread %u boundaries routed to %u / %u",
				    (unsigned long long)L, R, T, r, t, lid_to_rid(f), lid_to_rid(e - 1));
			texp = e;
		}
		if(texp != expect_first)
			VIOL("big-thread-cover", "L=%llu R=%u T=%u rank %u", (unsigned long long)L, R, T, r);
	}
	if(expect_first != L)
		VIOL("big-node-cover", "L=%llu R=%u", (unsigned long long)L, R);
}

int main(int argc, char **argv)
{
	if(argc < 4)
		return 2;
	if(!strcmp(argv[1], "box")) {
		unsigned maxL = atoi(argv[2]), maxR = atoi(argv[3]), maxT = atoi(argv[4]);
		unsigned minL = argc > 5 ? atoi(argv[5]) : 1;
		own = calloc(maxL + 1, sizeof(*own));
		for(uint64_t L = minL; L <= maxL; ++L)
			for(unsigned R = 1; R <= maxR && R <= L; ++R)
				for(unsigned T = 1; T <= maxT; ++T)
					one_triple(L, R, T);
		printf("SAMPLE {\"box\":{\"lps\":[%u,%u],\"ranks\":[1,%u],\"threads\":[1,%u]},\"last_triple\":[%u,%u,%u]}\n", minL, maxL,
		    maxR, maxT, maxL, maxR <= maxL ? maxR : maxL, maxT);
	} else {
		unsigned cnt = atoi(argv[2]);
		vrng_t r;
		vrng_seed(&r, strtoull(argv[3], NULL, 0));
		for(unsigned i = 0; i < cnt; ++i) {
			unsigned bits = 20 + vrng_below(&r, 21);
			uint64_t L = (1ULL << bits) + vrng_below(&r, 1ULL << bits);
			if(vrng_below(&r, 4) == 0)
				L = (1ULL << bits) - 1 + vrng_below(&r, 3);
			unsigned R = 1 + vrng_below(&r, 64), T = 1 + vrng_below(&r, 64);
			/* lid_to_nid multiplies lp_id * n_nodes in 64 bits: stay inside the domain where that cannot wrap */
			big_triple(L, R, T);
			if(i == 0)
				printf("SAMPLE {\"big_triple\":[%llu,%u,%u]}\n", (unsigned long long)L, R, T);
		}
	}
	printf("STAT cases %llu\nSTAT triples %llu\nSTAT nontrivial_triples %llu\nSTAT lp_routings_checked %llu\nSTAT triples_with_thread_clamp %llu\nSTAT violations %llu\n",
	    n_triples, n_triples, n_nontrivial, n_lp_checked, n_clamped, n_viol);
	printf("OK part\n");
	return 0;
}
