/* C16 engine, second part: the order the REAL per-thread message queue (datatypes/msg_queue.c, its own element comparator built on
 * msg_is_before_extended) hands events out in, for groups of events with (mostly) equal timestamps.
 *  (1) the extraction sequence never has a later element that is before an earlier one in the relation of lp/msg.h;
 *  (2) the extraction sequence, read as contents, is the same for every arrival order, every assignment of destination LPs and
 *      every placement in memory (contents within a group are pairwise different, so the sequence is unique).
 * usage: qorder <rounds> <seed>
 */
#include <datatypes/msg_queue.h>
#include <lp/lp.h>
#include <lp/msg.h>
#include <mm/msg_allocator.h>
#include <log/log.h>

#include <math.h>
#include <stdio.h>
#include <stdlib.h>
#include <string.h>
#include "vutil.h"

#define MAXPL 64
#define MAXG 7
#define NLPS 64

struct content {
	double t;
	uint32_t anti, type, size;
	unsigned char pl[MAXPL];
};

static unsigned long long n_viol;

static struct lp_msg *materialise(const struct content *c, vrng_t *r)
{
	/* a fresh buffer at a varying address, junk everywhere the order must not look */
	size_t pad = (size_t)(vrng_u64(r) % 5) * 16;
	unsigned char *raw = malloc(pad + sizeof(struct lp_msg) + MAXPL + 16);
	memset(raw, (int)(vrng_u64(r) & 0xff), pad + sizeof(struct lp_msg) + MAXPL + 16);
	struct lp_msg *m = (struct lp_msg *)(raw + pad);
	m->next = NULL;
	m->dest = vrng_u64(r) % NLPS;
	m->dest_t = c->t;
	m->raw_flags = (c->anti ? MSG_FLAG_ANTI : 0) | (vrng_u64(r) % 2 ? ((uint32_t)vrng_u64(r) << 2) : 0);
	m->m_seq = (uint32_t)vrng_u64(r);
	m->m_type = c->type;
	m->pl_size = c->size;
#ifndef NDEBUG
	m->send = vrng_u64(r) % NLPS;
	m->send_t = 0;
#endif
	unsigned char *pl = m->pl;
	memcpy(pl, c->pl, c->size);
	m->verif_aux = (uint64_t)(uintptr_t)raw; /* to free it */
	return m;
}

static void release(struct lp_msg *m) { free((void *)(uintptr_t)m->verif_aux); }

static int same(const struct content *a, const struct content *b)
{
	return a->t == b->t && a->anti == b->anti && a->type == b->type && a->size == b->size && !memcmp(a->pl, b->pl, a->size);
}

static void desc(const struct lp_msg *m, char *buf, size_t n)
{
	unsigned long long h = 1469598103934665603ULL;
	const unsigned char *pl = m->pl;
	for(unsigned i = 0; i < m->pl_size; ++i)
		h = (h ^ pl[i]) * 1099511628211ULL;
	snprintf(buf, n, "{t=%a,anti=%u,type=%u,size=%u,plh=%llx,dest=%llu}", m->dest_t, m->raw_flags & MSG_FLAG_ANTI, m->m_type, m->pl_size, m->pl_size ? h : 0ULL,
	    (unsigned long long)m->dest);
}

/* inserts the group in the given arrival order, extracts everything, returns the content index sequence */
static void run_order(const struct content *g, unsigned n, const unsigned *arrival, vrng_t *r, unsigned *out_seq, int same_dest)
{
	struct lp_msg *m[MAXG];
	for(unsigned i = 0; i < n; ++i) {
		m[i] = materialise(&g[i], r);
		if(same_dest)
			m[i]->dest = 7;
		m[i]->m_seq = i; /* remember which content this is (m_seq is not part of the order) */
	}
	for(unsigned i = 0; i < n; ++i)
		msg_queue_insert(m[arrival[i]]);
	struct lp_msg *x[MAXG];
	unsigned k = 0;
	struct lp_msg *e;
	while((e = msg_queue_extract()) != NULL && k < MAXG)
		x[k++] = e;
	if(k != n) {
		if(n_viol++ < 8)
			printf("VKEY C16 queue-lost-or-duplicated | %u inserted, %u extracted\n", n, k);
	}
	for(unsigned i = 0; i < k; ++i) {
		out_seq[i] = x[i]->m_seq;
		for(unsigned j = i + 1; j < k; ++j)
			if(msg_is_before(x[j], x[i])) {
				char a[160], b[160];
				desc(x[i], a, sizeof(a));
				desc(x[j], b, sizeof(b));
				if(n_viol++ < 8)
					printf("VKEY C16 queue-order-disagrees-with-relation | the queue handed out %s (position %u) before %s (position %u), which is before it in the relation; %u events in the group\n", a, i, b, j, n);
			}
	}
	for(unsigned i = 0; i < n; ++i)
		release(m[i]);
}

int main(int argc, char **argv)
{
	unsigned rounds = argc > 1 ? (unsigned)atoi(argv[1]) : 200;
	uint64_t seed = argc > 2 ? strtoull(argv[2], NULL, 0) : 1;
	vrng_t r;
	vrng_seed(&r, seed);
	global_config.log_level = LOG_SILENT;
	global_config.n_threads = 1;
	global_config.lps = NLPS;
	n_lps_node = NLPS;
	lid_node_first = 0;
	rid = 0;
	msg_queue_global_init();
	msg_allocator_init();
	msg_queue_init();

	static const uint32_t ty[] = {0, 1, 2, 3, 7, UINT32_MAX};
	static const uint32_t sz[] = {0, 0, 8, 32, 40};
	static const unsigned char alpha[] = {0x00, 0x01, 0x7f, 0x80, 0xff};
	unsigned long long groups = 0, orders = 0, tie_groups = 0, exhaustive_groups = 0;
	for(unsigned round = 0; round < rounds; ++round) {
		unsigned n = 3 + (unsigned)(vrng_u64(&r) % (MAXG - 2));
		struct content g[MAXG];
		unsigned have = 0, guard = 0;
		double base_t = (double)(vrng_u64(&r) % 4);
		while(have < n && guard++ < 200) {
			struct content *c = &g[have];
			memset(c, 0, sizeof(*c));
			c->t = (vrng_u64(&r) % 5) ? base_t : base_t + 1.0; /* mostly one timestamp */
			c->anti = vrng_u64(&r) % 6 == 0;
			c->type = ty[vrng_u64(&r) % 6];
			c->size = sz[vrng_u64(&r) % 5];
			memset(c->pl, alpha[vrng_u64(&r) % 5], c->size);
			if(c->size)
				c->pl[vrng_u64(&r) % 2 ? c->size - 1 : 0] = alpha[vrng_u64(&r) % 5];
			int dup = 0;
			for(unsigned i = 0; i < have; ++i)
				dup |= same(&g[i], c);
			have += !dup;
		}
		n = have;
		if(n < 3)
			continue;
		groups++;
		unsigned ties = 0;
		for(unsigned i = 0; i < n; ++i)
			ties += g[i].t == base_t;
		tie_groups += ties >= 3;
		/* reference sequence: one destination for all, arrival in index order */
		unsigned ident[MAXG], ref[MAXG], seq[MAXG];
		for(unsigned i = 0; i < n; ++i)
			ident[i] = i;
		run_order(g, n, ident, &r, ref, 1);
		orders++;
		/* every arrival order for small groups, 60 random ones otherwise; random destinations and addresses each time */
		unsigned perm[MAXG];
		unsigned nperm = 1;
		for(unsigned i = 2; i <= n; ++i)
			nperm *= i;
		int exhaustive = n <= 5;
		exhaustive_groups += exhaustive;
		unsigned todo = exhaustive ? nperm : 60;
		for(unsigned p = 0; p < todo; ++p) {
			for(unsigned i = 0; i < n; ++i)
				perm[i] = i;
			if(exhaustive) { /* p-th permutation (factorial number system) */
				unsigned code = p;
				for(unsigned i = 0; i < n; ++i) {
					unsigned f = 1;
					for(unsigned q = 2; q < n - i; ++q)
						f *= q;
					unsigned pick = code / f;
					code %= f;
					unsigned v = perm[i + pick];
					memmove(&perm[i + 1], &perm[i], pick * sizeof(unsigned));
					perm[i] = v;
				}
			} else {
				for(unsigned i = n - 1; i > 0; --i) {
					unsigned j = (unsigned)(vrng_u64(&r) % (i + 1)), tmp = perm[i];
					perm[i] = perm[j];
					perm[j] = tmp;
				}
			}
			run_order(g, n, perm, &r, seq, 0);
			orders++;
			if(memcmp(seq, ref, n * sizeof(unsigned))) {
				if(n_viol++ < 8) {
					char s1[64] = "", s2[64] = "", s3[64] = "";
					for(unsigned i = 0; i < n; ++i) {
						snprintf(s1 + strlen(s1), sizeof(s1) - strlen(s1), "%u", ref[i]);
						snprintf(s2 + strlen(s2), sizeof(s2) - strlen(s2), "%u", seq[i]);
						snprintf(s3 + strlen(s3), sizeof(s3) - strlen(s3), "%u", perm[i]);
					}
					printf("VKEY C16 queue-order-depends-on-arrival-or-destination | group of %u different events (%u at one timestamp): handed out as %s with one destination and arrival 0..n, as %s with arrival order %s and random destinations\n",
					    n, ties, s1, s2, s3);
				}
			}
		}
	}
	printf("STAT cases %llu\nSTAT queue_groups %llu\nSTAT queue_arrival_orders %llu\nSTAT queue_groups_with_three_or_more_ties %llu\nSTAT queue_groups_all_arrival_orders %llu\nSTAT violations %llu\n",
	    orders, groups, orders, tie_groups, exhaustive_groups, n_viol);
	printf("OK qorder\n");
	return 0;
}
