/* C15 engine: the real inter-thread message queue (datatypes/msg_queue.c) driven by P producers and C consumers.
 * History recorded at the harness boundary with one logical clock; unique id in every payload; offline checker.
 *
 * usage: queue run <threads> <consumers> <ops_per_thread> <tie_mode> <seed>
 *        queue fini <pending> <payload>        insert, then shut the queue down with messages still pending (C11/F5)
 * Build with -DQ_TSAN for the ThreadSanitizer flavour (relaxed clock so the harness adds no happens-before edges;
 * the order oracle is then skipped, exactly-once is still checked).
 */
#include <datatypes/msg_queue.h>
#include <lp/lp.h>
#include <mm/msg_allocator.h>
#include <verif_hooks.h>

#include <pthread.h>
#include <sched.h>
#include <stdio.h>
#include <stdlib.h>
#include "vutil.h"

#ifdef Q_TSAN
#define CLK_ORDER memory_order_relaxed
#else
#define CLK_ORDER memory_order_seq_cst
#endif

static _Atomic uint64_t clk = 1;
static inline uint64_t tick(void) { return atomic_fetch_add_explicit(&clk, 1, CLK_ORDER); }

enum rk { R_INS, R_EXT, R_PEEK };
struct rec {
	uint8_t kind;
	uint64_t call, ret;
	struct lp_msg *m; /* INS: the message; EXT: the result (may be NULL) */
	double v;         /* PEEK result */
};
struct tlog {
	struct rec *r;
	size_t n, cap;
};
static struct tlog *logs;
static unsigned T, C;
static unsigned long long ops_per_thread;
static int tie_mode;
static uint64_t seed0;
static pthread_barrier_t bar;
static _Atomic unsigned producers_left;

/* hook-side counters and failpoints */
static _Atomic unsigned long long cas_retries, swaps_nonempty, swaps_total, gap_delays;
static __thread vrng_t fp_rng;
static __thread int fp_on;
static unsigned fp_rate = 8; /* 1/fp_rate of the gaps get a yield or a spin */

void rs_verif_hook(unsigned point, const void *p, uint64_t a, uint64_t b)
{
	(void)a; (void)b;
	switch(point) {
		case VH_Q_CAS_RETRY:
			atomic_fetch_add_explicit(&cas_retries, 1, memory_order_relaxed);
			break;
		case VH_Q_SWAP:
			atomic_fetch_add_explicit(&swaps_total, 1, memory_order_relaxed);
			if(p)
				atomic_fetch_add_explicit(&swaps_nonempty, 1, memory_order_relaxed);
			break;
		case VH_Q_CAS_GAP:
			/* between the load of the list head and the CAS: a legal pre-emption point */
			if(fp_on && vrng_below(&fp_rng, fp_rate) == 0) {
				atomic_fetch_add_explicit(&gap_delays, 1, memory_order_relaxed);
				if(vrng_below(&fp_rng, 2))
					sched_yield();
				else
					for(volatile int i = 0; i < 200 + (int)vrng_below(&fp_rng, 3000); ++i) {}
			}
			break;
		default:
			break;
	}
}

static void add_rec(struct tlog *l, struct rec r)
{
	if(l->n == l->cap) {
		l->cap = l->cap ? l->cap * 2 : 4096;
		l->r = realloc(l->r, l->cap * sizeof(*l->r));
	}
	l->r[l->n++] = r;
}

struct payload {
	uint64_t id;
	uint64_t check;
};

static _Atomic uint64_t next_id = 1;
static _Atomic unsigned long long payload_errors;

#define LPS_PER_THR 4 /* several LPs per consumer thread: ties between events of different LPs meet in one private heap */

static struct lp_msg *make_msg(vrng_t *r, unsigned dest, double base_t)
{
	unsigned big = vrng_below(r, 8) == 0;
	unsigned sz = big ? 48 : sizeof(struct payload);
	struct lp_msg *m = msg_allocator_alloc(sz);
	m->dest = (uint64_t)dest * LPS_PER_THR + vrng_below(r, LPS_PER_THR);
	switch(tie_mode) {
		case 0: m->dest_t = base_t + vrng_unit(r) * 4.0; break;               /* continuous, almost no ties */
		case 1: m->dest_t = (double)vrng_below(r, 6); break;                 /* dense ties */
		default: m->dest_t = base_t + 0.25 * (double)vrng_below(r, 8); break; /* lattice around a moving base */
	}
	m->raw_flags = vrng_below(r, 10) == 0 ? MSG_FLAG_ANTI : 0; /* cancelled entries sort first among ties */
	m->m_type = (uint32_t)vrng_below(r, 3);
	m->m_seq = 0;
#ifndef NDEBUG
	m->send = 0;
	m->send_t = 0;
#endif
	unsigned char *pl = m->pl;
	memset(pl, 0, sz);
	struct payload p;
	p.id = atomic_fetch_add_explicit(&next_id, 1, memory_order_relaxed);
	p.check = p.id * 0x9E3779B97F4A7C15ULL;
	memcpy(pl, &p, sizeof(p)); /* written BEFORE the insert: the queue's release/acquire must publish it */
	return m;
}

static void *worker(void *arg)
{
	unsigned me = (unsigned)(uintptr_t)arg;
	rid = me;
	msg_allocator_init();
	msg_queue_init();
	vrng_t r;
	vrng_seed(&r, seed0 * 1315423911ULL + me);
	vrng_seed(&fp_rng, seed0 * 7 + me);
	fp_on = 1;
	struct tlog *l = &logs[me];
	pthread_barrier_wait(&bar);
	int consumer = me < C;
	double base_t = 0;
	unsigned burst = 0;
	for(unsigned long long i = 0; i < ops_per_thread; ++i) {
		unsigned a = (unsigned)vrng_below(&r, 100);
		if(!consumer || a < 35 || burst) {
			if(burst)
				burst--;
			else if(vrng_below(&r, 50) == 0)
				burst = 5 + (unsigned)vrng_below(&r, 60);
			struct lp_msg *m = make_msg(&r, (unsigned)vrng_below(&r, C), base_t);
			base_t += 0.01;
			struct rec rc = {.kind = R_INS, .m = m};
			rc.call = tick();
			msg_queue_insert(m);
			rc.ret = tick();
			add_rec(l, rc);
		} else if(a < 80) {
			struct rec rc = {.kind = R_EXT};
			rc.call = tick();
			struct lp_msg *m = msg_queue_extract();
			rc.ret = tick();
			rc.m = m;
			if(m) { /* read the payload AFTER the extract */
				struct payload p;
				memcpy(&p, m->pl, sizeof(p));
				if(p.check != p.id * 0x9E3779B97F4A7C15ULL)
					atomic_fetch_add_explicit(&payload_errors, 1, memory_order_relaxed);
			}
			add_rec(l, rc);
		} else {
			struct rec rc = {.kind = R_PEEK};
			rc.call = tick();
			rc.v = msg_queue_time_peek();
			rc.ret = tick();
			add_rec(l, rc);
		}
		if(vrng_below(&r, 200) == 0)
			sched_yield();
	}
	atomic_fetch_sub(&producers_left, 1);
	if(consumer) {
		/* drain: everything inserted must come out */
		unsigned idle = 0;
		while(atomic_load(&producers_left) || idle < 3) {
			struct rec rc = {.kind = R_EXT};
			rc.call = tick();
			struct lp_msg *m = msg_queue_extract();
			rc.ret = tick();
			rc.m = m;
			add_rec(l, rc);
			if(m) {
				idle = 0;
				struct payload p;
				memcpy(&p, m->pl, sizeof(p));
				if(p.check != p.id * 0x9E3779B97F4A7C15ULL)
					atomic_fetch_add_explicit(&payload_errors, 1, memory_order_relaxed);
			} else if(!atomic_load(&producers_left)) {
				idle++;
			} else {
				sched_yield();
			}
		}
	}
	pthread_barrier_wait(&bar);
	return NULL;
}

/* ---------------- offline checker ---------------- */
struct ins {
	uint64_t call, ret;
	struct lp_msg *m;
	int extracted; /* times extracted */
	uint64_t ext_call;
};
static int cmp_ins_ret(const void *a, const void *b)
{
	const struct ins *x = a, *y = b;
	return x->ret < y->ret ? -1 : x->ret > y->ret;
}
/* heap of present messages ordered by the REAL comparator */
static struct ins **hp;
static size_t hn;
static int before(const struct ins *a, const struct ins *b) { return msg_is_before(a->m, b->m); }
static void hpush(struct ins *x)
{
	size_t i = hn++;
	while(i && before(x, hp[(i - 1) / 2])) {
		hp[i] = hp[(i - 1) / 2];
		i = (i - 1) / 2;
	}
	hp[i] = x;
}
static void hpop(void)
{
	struct ins *last = hp[--hn];
	size_t i = 0;
	while(1) {
		size_t c = 2 * i + 1;
		if(c >= hn)
			break;
		if(c + 1 < hn && before(hp[c + 1], hp[c]))
			c++;
		if(!before(hp[c], last))
			break;
		hp[i] = hp[c];
		i = c;
	}
	if(hn)
		hp[i] = last;
}

static unsigned long long n_ext_checked, n_peek_checked, n_ties_seen, n_null_ext, n_present_at_ext_max, n_anti_first;

static uint64_t msg_id(const struct lp_msg *m)
{
	struct payload p;
	memcpy(&p, m->pl, sizeof(p));
	return p.id;
}

static int cmpp(const void *a, const void *b)
{
	const struct ins *const *x = a, *const *y = b;
	return (*x)->m < (*y)->m ? -1 : (*x)->m > (*y)->m;
}

static void check_consumer(unsigned c, struct ins *all, size_t n_all, struct ins **by_msg_lookup, size_t n_lookup)
{
	(void)by_msg_lookup; (void)n_lookup;
	/* inserts destined to c, sorted by the clock at which the insert RETURNED */
	struct ins *mine = malloc(sizeof(*mine) * (n_all + 1));
	size_t nm = 0;
	for(size_t i = 0; i < n_all; ++i)
		if(all[i].m->dest / LPS_PER_THR == c)
			mine[nm++] = all[i];
	qsort(mine, nm, sizeof(*mine), cmp_ins_ret);
	hp = malloc(sizeof(*hp) * (nm + 1));
	hn = 0;
	size_t next = 0;
	struct tlog *l = &logs[c];
	/* map message pointer -> index in mine (sorted copy for bsearch by pointer) */
	struct ins **byp = malloc(sizeof(*byp) * (nm + 1));
	for(size_t i = 0; i < nm; ++i)
		byp[i] = &mine[i];
	qsort(byp, nm, sizeof(*byp), cmpp);
	for(size_t k = 0; k < l->n; ++k) {
		struct rec *rc = &l->r[k];
		if(rc->kind == R_INS)
			continue;
		/* everything whose insert returned before this call began is definitely in the queue */
		while(next < nm && mine[next].ret < rc->call) {
			if(!mine[next].extracted)
				hpush(&mine[next]);
			next++;
		}
		while(hn && hp[0]->extracted)
			hpop();
		if(hn > n_present_at_ext_max)
			n_present_at_ext_max = hn;
		if(rc->kind == R_PEEK) {
			n_peek_checked++;
#ifndef Q_TSAN
			if(hn && rc->v > hp[0]->m->dest_t)
				vviol("C15", "peek-above-pending-message", "consumer %u: peek at clock %llu returned %a but message id %llu with timestamp %a was inserted (insert returned at clock %llu) and not yet extracted",
				    c, (unsigned long long)rc->call, rc->v, (unsigned long long)msg_id(hp[0]->m), hp[0]->m->dest_t, (unsigned long long)hp[0]->ret);
#endif
			continue;
		}
		/* extraction */
		if(!rc->m) {
			n_null_ext++;
			if(hn)
				vviol("C15", "extract-empty-while-message-pending", "consumer %u: extract at clock %llu returned nothing but message id %llu (t=%a) was inserted before (clock %llu)",
				    c, (unsigned long long)rc->call, (unsigned long long)msg_id(hp[0]->m), hp[0]->m->dest_t, (unsigned long long)hp[0]->ret);
			continue;
		}
		struct ins key = {.m = rc->m}, *kp = &key;
		struct ins **f = bsearch(&kp, byp, nm, sizeof(*byp), cmpp);
		if(!f) {
			vviol("C15", "extracted-by-wrong-consumer-or-unknown", "consumer %u extracted a message (id %llu, dest %llu) that was never inserted for it", c,
			    (unsigned long long)msg_id(rc->m), (unsigned long long)rc->m->dest);
			continue;
		}
		struct ins *x = *f;
		if(x->call > rc->ret)
			vviol("C15", "extracted-before-inserted", "consumer %u: message id %llu extracted (clock %llu) before its insert began (clock %llu)", c,
			    (unsigned long long)msg_id(rc->m), (unsigned long long)rc->ret, (unsigned long long)x->call);
		if(x->extracted++)
			vviol("C15", "extracted-twice", "consumer %u: message id %llu extracted %d times", c, (unsigned long long)msg_id(rc->m), x->extracted);
		n_ext_checked++;
#ifndef Q_TSAN
		while(hn && hp[0]->extracted)
			hpop();
		if(hn && before(hp[0], x)) {
			int tie = hp[0]->m->dest_t == x->m->dest_t;
			vviol("C15", tie ? "extract-order-among-equal-timestamps" : "extract-not-minimum", "consumer %u: extract (call clock %llu) returned id %llu {t=%a,flags=%x,type=%u} while id %llu {t=%a,flags=%x,type=%u}, inserted before the call (clock %llu), orders first",
			    c, (unsigned long long)rc->call, (unsigned long long)msg_id(x->m), x->m->dest_t, x->m->raw_flags & 1, x->m->m_type,
			    (unsigned long long)msg_id(hp[0]->m), hp[0]->m->dest_t, hp[0]->m->raw_flags & 1, hp[0]->m->m_type, (unsigned long long)hp[0]->ret);
		}
		if(hn && hp[0]->m->dest_t == x->m->dest_t) {
			n_ties_seen++;
			n_anti_first += (x->m->raw_flags & MSG_FLAG_ANTI) != 0;
		}
#endif
	}
	for(size_t i = 0; i < nm; ++i)
		if(mine[i].extracted == 0)
			vviol("C15", "inserted-never-extracted", "message id %llu (t=%a) inserted for consumer %u was never extracted although the consumer drained its queue", (unsigned long long)msg_id(mine[i].m), mine[i].m->dest_t, c);
	free(byp);
	free(hp);
	free(mine);
}

int main(int argc, char **argv)
{
	if(argc < 3)
		return 2;
	global_config.log_level = LOG_SILENT;
	if(!strcmp(argv[1], "fini")) {
		unsigned pending = atoi(argv[2]), pl = atoi(argv[3]);
		global_config.n_threads = 1;
		global_config.lps = 1;
		n_lps_node = 1;
		lid_node_first = 0;
		rid = 0;
		msg_queue_global_init();
		msg_allocator_init();
		msg_queue_init();
		for(unsigned i = 0; i < pending; ++i) {
			struct lp_msg *m = msg_allocator_alloc(pl);
			m->dest = 0;
			m->dest_t = i;
			m->raw_flags = 0;
			m->m_type = 0;
			memset(m->pl, 1, pl < 32 ? pl : 32);
			msg_queue_insert(m);
			if(i % 3 == 0)
				(void)msg_queue_time_peek(); /* some end up in the private heap, the rest stay in the shared buffer */
		}
		msg_queue_fini();
		msg_allocator_fini();
		msg_queue_global_fini();
		printf("STAT cases 1\nSTAT shutdown_with_pending %u\nSAMPLE {\"fini\":{\"pending\":%u,\"payload\":%u}}\nOK queue\n", pending, pending, pl);
		return 0;
	}
	T = atoi(argv[2]);
	C = atoi(argv[3]);
	ops_per_thread = strtoull(argv[4], NULL, 0);
	tie_mode = atoi(argv[5]);
	seed0 = strtoull(argv[6], NULL, 0);
	if(C > T)
		C = T;
	global_config.n_threads = T;
	global_config.lps = T * LPS_PER_THR;
	n_lps_node = T * LPS_PER_THR; /* LPS_PER_THR LPs per thread: lid_to_rid(dest) == dest / LPS_PER_THR */
	lid_node_first = 0;
	logs = calloc(T, sizeof(*logs));
	msg_queue_global_init();
	pthread_barrier_init(&bar, NULL, T);
	atomic_store(&producers_left, T);
	pthread_t th[64];
	for(unsigned t = 0; t < T; ++t)
		pthread_create(&th[t], NULL, worker, (void *)(uintptr_t)t);
	for(unsigned t = 0; t < T; ++t)
		pthread_join(th[t], NULL);

	/* collect all inserts */
	size_t n_ins = 0;
	for(unsigned t = 0; t < T; ++t)
		for(size_t k = 0; k < logs[t].n; ++k)
			n_ins += logs[t].r[k].kind == R_INS;
	struct ins *all = calloc(n_ins + 1, sizeof(*all));
	size_t w = 0;
	for(unsigned t = 0; t < T; ++t)
		for(size_t k = 0; k < logs[t].n; ++k)
			if(logs[t].r[k].kind == R_INS)
				all[w++] = (struct ins){.call = logs[t].r[k].call, .ret = logs[t].r[k].ret, .m = logs[t].r[k].m};
	for(unsigned c = 0; c < C; ++c)
		check_consumer(c, all, n_ins, NULL, 0);
	if(payload_errors)
		vviol("C15", "payload-not-published", "%llu extracted messages carried a payload that was not the one written before the insert", payload_errors);
	unsigned long long order_sig = 0;
	for(unsigned c = 0; c < C; ++c)
		for(size_t k = 0; k < logs[c].n; ++k)
			if(logs[c].r[k].kind == R_EXT && logs[c].r[k].m)
				order_sig = vmix(order_sig, msg_id(logs[c].r[k].m));
	int nontrivial = cas_retries > 0 && (n_ties_seen > 0 || tie_mode == 0);
	printf("STAT cases 1\nSTAT nontrivial_histories %d\nSTAT inserts %zu\nSTAT extractions_checked %llu\nSTAT peeks_checked %llu\nSTAT empty_extractions %llu\nSTAT cas_retries %llu\n"
	       "STAT buffer_swaps %llu\nSTAT buffer_swaps_nonempty %llu\nSTAT injected_gap_delays %llu\nSTAT extractions_with_equal_timestamp_pending %llu\nSTAT cancelled_entries_extracted_among_ties %llu\n",
	    nontrivial, n_ins, n_ext_checked, n_peek_checked, n_null_ext, (unsigned long long)cas_retries, (unsigned long long)swaps_total,
	    (unsigned long long)swaps_nonempty, (unsigned long long)gap_delays, n_ties_seen, n_anti_first);
	printf("MAX max_pending_at_an_operation %llu\n", n_present_at_ext_max);
	if(nontrivial)
		printf("SIG %016llx\n", order_sig);
	printf("SAMPLE {\"threads\":%u,\"consumers\":%u,\"ops_per_thread\":%llu,\"tie_mode\":%d,\"seed\":%llu,\"inserts\":%zu,\"cas_retries\":%llu}\n", T, C, ops_per_thread, tie_mode,
	    (unsigned long long)seed0, n_ins, (unsigned long long)cas_retries);
	printf("OK queue\n");
	return 0;
}
