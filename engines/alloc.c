/* Allocator engine (C12, C05 oracle B, C13): drives the real rs_malloc/calloc/realloc/free and
 * model_allocator_checkpoint_take/_restore/_fossil_lp_collect against a shadow model.
 *
 * One "event" = one mutating operation; `hist` plays the role of the LP history length. A rollback to `target`
 * = restore (newest checkpoint <= target) + coasting forward by re-executing the logged operations, exactly as the
 * runtime re-executes events.
 *
 * usage: alloc hist <n_histories> <ops> <seed>
 *        alloc enum <depth>                (meant for the small-arena build: all malloc/free sequences up to depth)
 */
#include <lp/lp.h>
#include <mm/buddy/buddy.h>
#include <mm/buddy/ckpt.h>
#include <mm/buddy/multi.h>
#include <mm/model_allocator.h>

#include <errno.h>
#include <stdio.h>
#include <stdlib.h>
#include "vutil.h"

#define ARENA (1U << B_TOTAL_EXP)
#define LEAF (1U << B_BLOCK_EXP)
#define NLEAF (ARENA / LEAF)

static struct lp_ctx the_lp;
static unsigned long long n_ops, n_restores, n_restore_nonckpt, n_fossils, n_fossil_then_restore, n_arena_after_ckpt, n_cases,
    n_reuse_checks, n_addr_diverge, n_grow_while_room, n_reuse_probes, n_calloc, n_realloc_move, n_realloc_same, n_null_ok, n_verify, max_arenas, n_coast_ops, n_ckpts, n_nontrivial;

#define VIOL(prop, key, ...) vviol(prop, key, __VA_ARGS__)

/* an allocator call that normally takes microseconds and has not returned after 60 s never will */
#include <pthread.h>
#include <time.h>
static volatile const char *api_call;
static volatile time_t api_since;
#define API(name, expr) (api_since = time(NULL), api_call = (name), (expr))
#define API_DONE() (api_call = NULL)
static void *api_watchdog(void *arg)
{
	(void)arg;
	while(1) {
		sleep(2);
		const char *c = (const char *)api_call;
		if(c && time(NULL) - api_since > 60) {
			VIOL("C12", "allocator-call-does-not-return", "%s has not returned after 60 s (normal duration: microseconds)", c);
			printf("STAT cases 1\n");
			fflush(stdout);
			_exit(0);
		}
	}
	return NULL;
}

/* ---------------- shadow model ---------------- */
struct blk {
	uint32_t id; /* logical identity of the allocation: survives realloc moves and address changes on re-execution */
	unsigned char *p;
	uint32_t req;  /* requested size */
	uint32_t bsz;  /* block size: power of two >= max(req, 64) */
	unsigned char *data; /* req bytes: what the model wrote */
};
struct liveset {
	struct blk *b;
	unsigned n, cap;
};
enum opk { O_MALLOC, O_CALLOC, O_REALLOC, O_FREE, O_WRITE };
struct op {
	enum opk k;
	uint32_t size, nmemb;
	uint32_t id;        /* logical block the op creates (malloc/calloc) or works on (realloc/free/write) */
	unsigned char *res; /* result pointer of the original execution */
	uint64_t pat;       /* pattern seed written into the block */
};
struct snap {
	unsigned ref; /* history length at which it was taken */
	struct liveset ls;
};

static struct liveset live;
static uint32_t next_id;
static struct op *oplog; /* oplog[i] = the operation that took hist from base+i to base+i+1 */
static unsigned n_oplog, cap_oplog;
static unsigned hist;      /* current history length */
static struct snap *snaps; /* shadow of mm_state.logs */
static unsigned n_snaps, cap_snaps;
static uint64_t *digests; /* digests[i] = shadow digest when history length was i */
static unsigned cap_dig;

static struct buddy_state *arena_of(const unsigned char *p);
static uint32_t real_block_size(const struct buddy_state *b, const unsigned char *p);

static uint32_t bsz_of(uint32_t req)
{
	uint32_t b = LEAF;
	while(b < req)
		b <<= 1;
	return b;
}

static void fill(unsigned char *p, uint32_t n, uint64_t pat)
{
	for(uint32_t i = 0; i < n; ++i) {
		pat = pat * 6364136223846793005ULL + 1442695040888963407ULL;
		p[i] = (unsigned char)((pat >> 56) | 1); /* never zero: reused space is always dirty */
	}
}

static void ls_copy(struct liveset *d, const struct liveset *s)
{
	d->n = d->cap = s->n;
	d->b = malloc(sizeof(*d->b) * (s->n ? s->n : 1));
	for(unsigned i = 0; i < s->n; ++i) {
		d->b[i] = s->b[i];
		d->b[i].data = malloc(s->b[i].req);
		memcpy(d->b[i].data, s->b[i].data, s->b[i].req);
	}
}
static void ls_free(struct liveset *s)
{
	for(unsigned i = 0; i < s->n; ++i)
		free(s->b[i].data);
	free(s->b);
	s->b = NULL;
	s->n = s->cap = 0;
}
static int ls_find(const struct liveset *s, uint32_t id)
{
	for(unsigned i = 0; i < s->n; ++i)
		if(s->b[i].id == id)
			return (int)i;
	return -1;
}
static void ls_add(struct liveset *s, uint32_t id, unsigned char *p, uint32_t req, const unsigned char *content)
{
	if(s->n == s->cap) {
		s->cap = s->cap ? s->cap * 2 : 16;
		s->b = realloc(s->b, sizeof(*s->b) * s->cap);
	}
	struct blk *b = &s->b[s->n++];
	b->id = id;
	b->p = p;
	b->req = req;
	b->bsz = bsz_of(req); /* overwritten with the size actually reserved (read from the tree) by the caller */
	b->data = malloc(req);
	memcpy(b->data, content, req);
	struct buddy_state *ar = arena_of(p);
	uint32_t rsz = ar ? real_block_size(ar, p) : 0;
	if(rsz >= b->bsz)
		b->bsz = rsz; /* the size the allocator actually reserved (an in-place shrink may legitimately keep a larger block) */
}
static void ls_del(struct liveset *s, unsigned i)
{
	free(s->b[i].data);
	s->b[i] = s->b[--s->n];
}
static uint64_t ls_digest(const struct liveset *s)
{
	uint64_t h = 0; /* order independent */
	for(unsigned i = 0; i < s->n; ++i) {
		uint64_t x = vmix(0x1234, s->b[i].id); /* addresses are deliberately not part of the state digest */
		x = vmix(x, s->b[i].req);
		x = vhash_bytes(x, s->b[i].data, s->b[i].req);
		h += x;
	}
	return vmix(h, s->n);
}

/* ---------------- reading the real allocator ---------------- */
static struct buddy_state *arena_of(const unsigned char *p)
{
	struct mm_state *mm = &the_lp.mm_state;
	for(array_count_t i = 0; i < array_count(mm->buddies); ++i) {
		struct buddy_state *b = array_get_at(mm->buddies, i);
		if(p >= b->base_mem && p < b->base_mem + ARENA)
			return b;
	}
	return NULL;
}

/* allocated coverage of an arena at leaf granularity, read from the real longest[] tree */
static void real_coverage(const struct buddy_state *b, unsigned char cov[NLEAF])
{
	memset(cov, 0, NLEAF);
	/* iterative DFS: node i at level size l */
	struct { uint32_t i; uint8_t l; } st[64];
	int sp = 0;
	st[sp].i = 0;
	st[sp++].l = B_TOTAL_EXP;
	while(sp) {
		uint32_t i = st[--sp].i;
		uint8_t l = st[sp].l;
		uint8_t lon = b->longest[i];
		if(lon == 0) {
			uint32_t off = ((i + 1) << l) - ARENA;
			for(uint32_t k = off / LEAF; k < (off + (1U << l)) / LEAF; ++k)
				cov[k] = 1;
		} else if(lon != l && l > B_BLOCK_EXP) {
			st[sp].i = buddy_left_child(i);
			st[sp++].l = l - 1;
			st[sp].i = buddy_right_child(i);
			st[sp++].l = l - 1;
		}
	}
}

/* actual size of the block starting at p, read from the tree the way buddy_free() reads it */
static uint32_t real_block_size(const struct buddy_state *b, const unsigned char *p)
{
	uint32_t o = (uint32_t)(p - b->base_mem) >> B_BLOCK_EXP;
	uint32_t i = o + (1U << (B_TOTAL_EXP - B_BLOCK_EXP)) - 1;
	uint32_t sz = LEAF;
	while(b->longest[i] && i) {
		i = buddy_parent(i);
		sz <<= 1;
	}
	return b->longest[i] ? 0 : sz;
}

static void shadow_coverage(const struct liveset *s, const struct buddy_state *b, unsigned char cov[NLEAF], int *overlap)
{
	memset(cov, 0, NLEAF);
	for(unsigned i = 0; i < s->n; ++i) {
		const unsigned char *p = s->b[i].p;
		if(p < b->base_mem || p >= b->base_mem + ARENA)
			continue;
		uint32_t off = (uint32_t)(p - b->base_mem);
		for(uint32_t k = off / LEAF; k < (off + s->b[i].bsz) / LEAF && k < NLEAF; ++k) {
			if(cov[k] && overlap)
				*overlap = 1;
			cov[k] = 1;
		}
	}
}

/* is there a free, aligned hole of size bsz in this arena according to the shadow? */
static int real_has_hole(const unsigned char cov[NLEAF], uint32_t bsz)
{
	for(uint32_t off = 0; off + bsz <= ARENA; off += bsz) {
		int freeb = 1;
		for(uint32_t k = off / LEAF; k < (off + bsz) / LEAF; ++k)
			if(cov[k]) {
				freeb = 0;
				break;
			}
		if(freeb)
			return 1;
	}
	return 0;
}

/* full comparison of the real allocator with a shadow live set */
static void verify_against(const struct liveset *s, const char *when, const char *prop)
{
	struct mm_state *mm = &the_lp.mm_state;
	n_verify++;
	for(unsigned i = 0; i < s->n; ++i) {
		if(!arena_of(s->b[i].p)) {
			VIOL(prop, "live-block-outside-arenas", "%s: block %p (%u bytes) is not inside any arena", when, (void *)s->b[i].p, s->b[i].req);
			return;
		}
		if(memcmp(s->b[i].p, s->b[i].data, s->b[i].req)) {
			uint32_t k = 0;
			while(s->b[i].p[k] == s->b[i].data[k])
				k++;
			VIOL(prop, !strcmp(prop, "C12") ? "live-block-content-changed" : "restored-block-content-differs",
			    "%s: block %p size %u differs from the model's copy at byte %u (is %02x, expected %02x)", when,
			    (void *)s->b[i].p, s->b[i].req, k, s->b[i].p[k], s->b[i].data[k]);
			return;
		}
	}
	for(array_count_t a = 0; a < array_count(mm->buddies); ++a) {
		struct buddy_state *b = array_get_at(mm->buddies, a);
		unsigned char rc[NLEAF], sc[NLEAF];
		int ov = 0;
		real_coverage(b, rc);
		shadow_coverage(s, b, sc, &ov);
		if(ov)
			VIOL("C12", "live-blocks-overlap", "%s: two live blocks overlap in arena %u", when, (unsigned)a);
		/* the model's blocks use the sizes actually reserved (read from the tree when they were handed out), so the two maps
		 * must be equal: a leaf allocated in the tree but owned by no live block is leaked space, the converse is a block
		 * the allocator no longer protects */
		if(memcmp(rc, sc, NLEAF)) {
			unsigned k = 0;
			while(rc[k] == sc[k])
				k++;
			VIOL(prop, !strcmp(prop, "C12") ? (rc[k] ? "space-not-released" : "live-block-not-protected") : "restored-live-set-differs",
			    "%s: arena %u leaf %u is %s in the allocator but %s according to the live blocks", when, (unsigned)a, k,
			    rc[k] ? "allocated" : "free", sc[k] ? "owned by a live block" : "owned by none");
			return;
		}
	}
}

/* ---------------- operations ---------------- */
static void log_op(struct op o)
{
	if(n_oplog == cap_oplog) {
		cap_oplog = cap_oplog ? cap_oplog * 2 : 1024;
		oplog = realloc(oplog, sizeof(*oplog) * cap_oplog);
	}
	oplog[n_oplog++] = o;
	hist++;
	if(hist >= cap_dig) {
		cap_dig = cap_dig ? cap_dig * 2 : 1024;
		while(hist >= cap_dig)
			cap_dig *= 2;
		digests = realloc(digests, sizeof(*digests) * cap_dig);
	}
	digests[hist] = ls_digest(&live);
}

static void check_new_block(unsigned char *p, uint32_t req, const char *what, array_count_t arenas_before, const struct blk *freed_after)
{
	struct mm_state *mm = &the_lp.mm_state;
	uint32_t bsz = bsz_of(req);
	struct buddy_state *b = arena_of(p);
	if(!b) {
		VIOL("C12", "block-outside-arenas", "%s(%u) returned %p which is in no arena", what, req, (void *)p);
		return;
	}
	uint32_t off = (uint32_t)(p - b->base_mem);
	if(((uintptr_t)p & 15) || (off & (LEAF - 1)))
		VIOL("C12", "block-misaligned", "%s(%u) returned %p (offset %u in its arena)", what, req, (void *)p, off);
	if(off + req > ARENA)
		VIOL("C12", "block-too-short", "%s(%u) returned offset %u: only %u bytes to the end of the arena", what, req, off, ARENA - off);
	else if(real_block_size(b, p) < req)
		VIOL("C12", "block-too-short", "%s(%u) returned a block for which the allocator reserved only %u bytes", what, req, real_block_size(b, p));
	for(unsigned i = 0; i < live.n; ++i) {
		unsigned char *q = live.b[i].p;
		if(p < q + live.b[i].req && q < p + req)
			VIOL("C12", "block-overlaps-live-block", "%s(%u) returned %p overlapping live block %p (%u bytes)", what, req, (void *)p, (void *)q, live.b[i].req);
	}
	if(array_count(mm->buddies) > arenas_before) {
		/* a new arena was created: no older arena may have had room */
		n_reuse_checks++;
		for(array_count_t a = 0; a < array_count(mm->buddies); ++a) {
			struct buddy_state *o = array_get_at(mm->buddies, a);
			if(o == b)
				continue;
			/* the older arenas were not touched by this call, except for the block a moving realloc released afterwards */
			unsigned char cov[NLEAF];
			real_coverage(o, cov);
			if(freed_after && freed_after->p >= o->base_mem && freed_after->p < o->base_mem + ARENA)
				for(uint32_t k = (uint32_t)(freed_after->p - o->base_mem) / LEAF, e = k + freed_after->bsz / LEAF; k < e && k < NLEAF; ++k)
					cov[k] = 1;
			if(real_has_hole(cov, bsz))
				n_grow_while_room++; /* statistic only: growing while an older arena has room is a policy, not a violation */
		}
		if(n_snaps)
			n_arena_after_ckpt++;
	}
	if(array_count(mm->buddies) > max_arenas)
		max_arenas = array_count(mm->buddies);
}

/* executes one logged op on the real allocator; when `replay`, compares with the original result */
static void exec_op(struct op *o, int replay)
{
	struct mm_state *mm = &the_lp.mm_state;
	array_count_t ab = array_count(mm->buddies);
	unsigned char tmp[1]; (void)tmp;
	n_ops++;
	switch(o->k) {
		case O_MALLOC:
		case O_CALLOC: {
			errno = 0;
			unsigned char *p = API("rs_malloc/rs_calloc", o->k == O_MALLOC ? rs_malloc(o->size) : rs_calloc(o->nmemb, o->size / (o->nmemb ? o->nmemb : 1)));
			API_DONE();
			uint32_t req = o->size;
			if(req == 0 || req > ARENA) {
				n_null_ok++;
				if(p)
					VIOL("C12", req ? "oversize-request-served" : "zero-size-request-served", "%s(%u) returned %p instead of NULL", o->k == O_MALLOC ? "rs_malloc" : "rs_calloc", req, (void *)p);
				o->res = NULL;
				return;
			}
			if(!p) {
				VIOL("C12", "valid-request-refused", "%s(%u) returned NULL", o->k == O_MALLOC ? "rs_malloc" : "rs_calloc", req);
				o->res = NULL;
				return;
			}
			n_addr_diverge += replay && p != o->res;
			o->res = p;
			check_new_block(p, req, o->k == O_MALLOC ? "rs_malloc" : "rs_calloc", ab, NULL);
			if(o->k == O_CALLOC) {
				n_calloc++;
				for(uint32_t i = 0; i < req; ++i)
					if(p[i]) {
						VIOL("C12", "calloc-not-zeroed", "rs_calloc(%u,%u) byte %u is %02x", o->nmemb, req / o->nmemb, i, p[i]);
						break;
					}
				unsigned char *z = calloc(1, req);
				ls_add(&live, o->id, p, req, z);
				free(z);
			} else {
				fill(p, req, o->pat);
				ls_add(&live, o->id, p, req, p);
			}
			break;
		}
		case O_WRITE: {
			int i = ls_find(&live, o->id);
			if(i < 0)
				return;
			fill(live.b[i].p, live.b[i].req, o->pat);
			memcpy(live.b[i].data, live.b[i].p, live.b[i].req);
			break;
		}
		case O_FREE: {
			int i = ls_find(&live, o->id);
			if(i < 0)
				return;
			uint32_t fsz = live.b[i].bsz;
			API("rs_free", (rs_free(live.b[i].p), 0));
			API_DONE();
			ls_del(&live, (unsigned)i);
			if(!replay && (o->pat & 3) == 0) {
				/* "freeing makes the space reusable": a request of the size just released must be served without growing */
				array_count_t before = array_count(mm->buddies);
				unsigned char *q = API("rs_malloc", rs_malloc(fsz));
				API_DONE();
				n_reuse_probes++;
				if(!q)
					VIOL("C12", "freed-space-not-reusable", "rs_malloc(%u) right after releasing a %u-byte block returned NULL", fsz, fsz);
				else {
					if(array_count(mm->buddies) != before)
						VIOL("C12", "freed-space-not-reusable", "rs_malloc(%u) right after releasing a %u-byte block had to create a new arena", fsz, fsz);
					rs_free(q);
				}
			}
			break;
		}
		case O_REALLOC: {
			int i = ls_find(&live, o->id);
			if(i < 0)
				return;
			unsigned char *oldp = live.b[i].p;
			uint32_t oreq = live.b[i].req, nreq = o->size;
			unsigned char *keep = malloc(oreq);
			memcpy(keep, live.b[i].data, oreq);
			unsigned char *p = API("rs_realloc", rs_realloc(oldp, nreq));
			API_DONE();
			if(nreq == 0 || nreq > ARENA) {
				n_null_ok++;
				if(p)
					VIOL("C12", "realloc-bad-size-served", "rs_realloc(%p,%u) returned %p", (void *)oldp, nreq, (void *)p);
				/* old block must still be intact and live */
				o->res = NULL;
				free(keep);
				return;
			}
			if(!p) {
				VIOL("C12", "valid-realloc-refused", "rs_realloc(%p,%u) returned NULL", (void *)oldp, nreq);
				free(keep);
				return;
			}
			n_addr_diverge += replay && p != o->res;
			o->res = p;
			uint32_t common = oreq < nreq ? oreq : nreq;
			if(memcmp(p, keep, common))
				VIOL("C12", "realloc-content-lost", "rs_realloc(%u -> %u) did not preserve the first %u bytes", oreq, nreq, common);
			if(p != oldp) {
				n_realloc_move++;
				struct blk old = live.b[i];
				ls_del(&live, (unsigned)i); /* do not count the moved block against itself */
				check_new_block(p, nreq, "rs_realloc", ab, &old); /* the old block was still live while the new one was obtained */
			} else {
				n_realloc_same++;
				struct buddy_state *ar = arena_of(p);
				uint32_t have = ar ? real_block_size(ar, p) : 0;
				if(have < nreq)
					VIOL("C12", "realloc-in-place-too-small", "rs_realloc(%u -> %u) returned the same block, for which the allocator reserves %u bytes", oreq, nreq, have);
				ls_del(&live, (unsigned)i);
			}
			unsigned char *c = malloc(nreq);
			memcpy(c, keep, common);
			if(nreq > common) {
				fill(p + common, nreq - common, o->pat);
				memcpy(c + common, p + common, nreq - common);
			}
			ls_add(&live, o->id, p, nreq, c);
			free(c);
			free(keep);
			break;
		}
	}
}

/* ---------------- checkpoints / rollback / fossil ---------------- */
static void take_ckpt(void)
{
	if(n_snaps && snaps[n_snaps - 1].ref >= hist)
		return;
	model_allocator_checkpoint_take(&the_lp.mm_state, hist);
	if(n_snaps == cap_snaps) {
		cap_snaps = cap_snaps ? cap_snaps * 2 : 32;
		snaps = realloc(snaps, sizeof(*snaps) * cap_snaps);
	}
	snaps[n_snaps].ref = hist;
	ls_copy(&snaps[n_snaps].ls, &live);
	n_snaps++;
	n_ckpts++;
}

static unsigned base; /* history index of oplog[0]'s pre-state: oplog[i] moves hist from base+i to base+i+1 */

static void rollback(unsigned target, int after_fossil)
{
	struct mm_state *mm = &the_lp.mm_state;
	array_count_t arenas_now = array_count(mm->buddies);
	(void)arenas_now;
	int s = (int)n_snaps - 1;
	while(s >= 0 && snaps[s].ref > target)
		s--;
	if(s < 0) {
		printf("HARNESS-ERROR no checkpoint <= target %u\n", target);
		exit(2);
	}
	array_count_t got = model_allocator_checkpoint_restore(mm, target);
	n_restores++;
	n_restore_nonckpt += snaps[s].ref != target;
	n_fossil_then_restore += after_fossil;
	if(got != snaps[s].ref) {
		/* any kept checkpoint at or before the target is a legitimate choice (an older one only means more re-execution) */
		int s2 = s;
		while(s2 >= 0 && snaps[s2].ref != got)
			s2--;
		if(s2 < 0 || got > target) {
			VIOL("C05", "restore-wrong-checkpoint", "restore(target %u) reported checkpoint ref %u, which is %s", target, (unsigned)got, got > target ? "after the target" : "not a kept checkpoint");
			/* cannot continue this history meaningfully */
			printf("STAT aborted_histories 1\n");
			exit(0);
		}
		s = s2;
	}
	/* state right after the restore must be the snapshot's */
	ls_free(&live);
	ls_copy(&live, &snaps[s].ls);
	for(int k = (int)n_snaps - 1; k > s; --k)
		ls_free(&snaps[k].ls);
	n_snaps = (unsigned)s + 1;
	verify_against(&live, "right after checkpoint restore", "C05");
	/* coast forward: re-execute the logged operations ref .. target */
	for(unsigned i = snaps[s].ref; i < target; ++i) {
		n_coast_ops++;
		exec_op(&oplog[i - base], 1);
	}
	n_oplog = target - base;
	hist = target;
	if(ls_digest(&live) != digests[target])
		VIOL("C05", "state-after-rollback-differs", "after rollback to %u (checkpoint %u + %u re-executed ops) the live set/content differs from the state that existed at %u", target, snaps[s].ref, target - snaps[s].ref, target);
	verify_against(&live, "after rollback and coasting forward", "C05");
	/* the size the next checkpoint will use must be enough: taking one now runs under ASan */
}

static void fossil(unsigned tgt)
{
	struct mm_state *mm = &the_lp.mm_state;
	int s = (int)n_snaps - 1;
	while(s >= 0 && snaps[s].ref > tgt)
		s--;
	if(s < 0)
		return;
	array_count_t got = model_allocator_fossil_lp_collect(mm, tgt);
	n_fossils++;
	if(got != snaps[s].ref) {
		/* keeping an older checkpoint than the newest one at or before the target is legitimate (it only keeps more) */
		int s2 = s;
		while(s2 >= 0 && snaps[s2].ref != got)
			s2--;
		if(s2 < 0 || got > tgt) {
			VIOL("C13", "fossil-wrong-amount", "fossil collect(target %u) returned %u, which is %s (newest checkpoint <= target: %u)", tgt, (unsigned)got, got > tgt ? "beyond the target: history a rollback can still need is gone" : "not the reference of a kept checkpoint", snaps[s].ref);
			printf("STAT aborted_histories 1\n");
			exit(0);
		}
		s = s2;
	}
	/* the runtime now drops the first `got` history entries: re-base everything */
	for(int k = 0; k < s; ++k)
		ls_free(&snaps[k].ls);
	memmove(snaps, snaps + s, sizeof(*snaps) * (n_snaps - (unsigned)s));
	n_snaps -= (unsigned)s;
	for(unsigned k = 0; k < n_snaps; ++k)
		snaps[k].ref -= got;
	unsigned drop = got - base; /* ops before the kept checkpoint */
	memmove(oplog, oplog + drop, sizeof(*oplog) * (n_oplog - drop));
	n_oplog -= drop;
	memmove(digests, digests + got, sizeof(*digests) * (hist - got + 1));
	hist -= got;
	base = 0;
	/* real logs must now agree with the shadow refs */
	if(array_count(mm->logs) != n_snaps)
		VIOL("C13", "fossil-kept-checkpoints", "allocator keeps %u checkpoints, model keeps %u", (unsigned)array_count(mm->logs), n_snaps);
	else
		for(unsigned k = 0; k < n_snaps; ++k)
			if(array_get_at(mm->logs, k).ref_i != snaps[k].ref) {
				VIOL("C13", "fossil-ref-not-rebased", "kept checkpoint %u has ref %u, expected %u after re-basing", k, (unsigned)array_get_at(mm->logs, k).ref_i, snaps[k].ref);
				break;
			}
}

static void history_begin(void)
{
	memset(&the_lp, 0, sizeof(the_lp));
	current_lp = &the_lp;
	model_allocator_lp_init(&the_lp.mm_state);
	live.n = 0;
	n_oplog = 0;
	n_snaps = 0;
	hist = 0;
	base = 0;
	if(!cap_dig) {
		cap_dig = 1024;
		digests = malloc(sizeof(*digests) * cap_dig);
	}
	/* like lp_init(): one allocation (the RNG context), then the initial event and its checkpoint at history length 1 */
	next_id = 1;
	struct op o = {.k = O_MALLOC, .size = 32, .pat = 99, .id = next_id++};
	exec_op(&o, 0);
	log_op(o);
	take_ckpt();
}

static void history_end(void)
{
	verify_against(&live, "end of history", "C12");
	ls_free(&live);
	for(unsigned k = 0; k < n_snaps; ++k)
		ls_free(&snaps[k].ls);
	n_snaps = 0;
	model_allocator_lp_fini(&the_lp.mm_state);
}

static uint32_t pick_size(vrng_t *r)
{
	switch(vrng_below(r, 10)) {
		case 0: return 1 + (uint32_t)vrng_below(r, 64);
		case 1:
		case 2: { /* around powers of two */
			uint32_t k = B_BLOCK_EXP + (uint32_t)vrng_below(r, B_TOTAL_EXP - B_BLOCK_EXP + 1);
			int d = (int)vrng_below(r, 3) - 1;
			uint32_t s = (1U << k) + d;
			return s;
		}
		case 3: return ARENA - (uint32_t)vrng_below(r, 3);
		case 4: return ARENA / 2 + (uint32_t)vrng_below(r, 3) - 1;
		case 5: return 65 + (uint32_t)vrng_below(r, 1000);
		case 6: return (uint32_t)vrng_below(r, 20) == 0 ? 0 : 8 + (uint32_t)vrng_below(r, 200);
		case 7: return (uint32_t)vrng_below(r, 12) == 0 ? ARENA + 1 + (uint32_t)vrng_below(r, 100000) : 100 + (uint32_t)vrng_below(r, ARENA / 4);
		default: return 16 + (uint32_t)vrng_below(r, 500);
	}
}

static void one_history(unsigned ops, vrng_t *r, int sample)
{
	history_begin();
	unsigned interval = 1 + (unsigned)vrng_below(r, vrng_below(r, 2) ? 4 : 24);
	unsigned since_ckpt = 0, had_fossil = 0;
	unsigned max_live_bytes = (unsigned)(ARENA * (1 + vrng_below(r, vrng_below(r, 4) ? 3 : 40)));
	unsigned long long restores0 = n_restores, nonckpt0 = n_restore_nonckpt, aac0 = n_arena_after_ckpt, fr0 = n_fossil_then_restore;
	for(unsigned step = 0; step < ops; ++step) {
		unsigned a = (unsigned)vrng_below(r, 100);
		size_t live_bytes = 0;
		for(unsigned i = 0; i < live.n; ++i)
			live_bytes += live.b[i].bsz;
		if(a < 4 && hist > 1) {
			/* rollback: to a checkpoint, between checkpoints, to the oldest kept point, repeated */
			unsigned lo = snaps[0].ref, t;
			switch(vrng_below(r, 5)) {
				case 0: t = snaps[vrng_below(r, n_snaps)].ref; break;
				case 1: t = lo; break;
				case 2: t = hist; break;
				default: t = hist - (unsigned)vrng_below(r, (hist - lo < 40 ? hist - lo : 40) + 1);
			}
			if(t < lo)
				t = lo;
			rollback(t, had_fossil);
			had_fossil = 0;
			if(vrng_below(r, 4) == 0 && hist > lo) /* repeated rollback */
				rollback(lo + (unsigned)vrng_below(r, hist - lo + 1), 0);
			since_ckpt = 0;
			continue;
		}
		if(a < 6 && n_snaps > 1) {
			unsigned lo = snaps[0].ref;
			unsigned t = lo + (unsigned)vrng_below(r, hist - lo + 1);
			fossil(t);
			had_fossil = 1;
			continue;
		}
		struct op o = {.pat = vrng_u64(r)};
		unsigned w = (unsigned)vrng_below(r, 100);
		int grow = live_bytes < max_live_bytes;
		if(live.n == 0 || (w < (grow ? 45u : 15u))) {
			o.k = vrng_below(r, 5) == 0 ? O_CALLOC : O_MALLOC;
			o.id = next_id++;
			o.size = pick_size(r);
			if(o.k == O_CALLOC) {
				static const uint32_t nm[] = {1, 2, 4, 8, 16};
				o.nmemb = nm[vrng_below(r, 5)];
				o.size = (o.size / o.nmemb) * o.nmemb;
			}
		} else if(w < 60) {
			o.k = O_REALLOC;
			o.id = live.b[vrng_below(r, live.n)].id;
			o.size = pick_size(r);
		} else if(w < (grow ? 80u : 95u)) {
			o.k = O_FREE;
			o.id = live.b[vrng_below(r, live.n)].id;
		} else {
			o.k = O_WRITE;
			o.id = live.b[vrng_below(r, live.n)].id;
		}
		exec_op(&o, 0);
		log_op(o);
		if(live_bytes < (1U << 20) || (step & 15) == 0)
			verify_against(&live, "after an operation", "C12");
		if(++since_ckpt >= interval) {
			take_ckpt();
			since_ckpt = 0;
		}
	}
	/* final: roll all the way back to the oldest kept point, then forward state must be reproducible */
	rollback(snaps[0].ref, had_fossil);
	if(sample)
		printf("SAMPLE {\"history\":{\"ops\":%u,\"ckpt_interval\":%u,\"live_budget\":%u,\"restores\":%llu,\"restores_to_non_checkpoint\":%llu,\"arenas_created_after_a_checkpoint\":%llu,\"max_arenas\":%llu}}\n",
		    ops, interval, max_live_bytes, n_restores - restores0, n_restore_nonckpt - nonckpt0, n_arena_after_ckpt - aac0, max_arenas);
	n_nontrivial += (n_restore_nonckpt > nonckpt0) && (n_arena_after_ckpt > aac0) && (n_fossil_then_restore > fr0);
	(void)restores0;
	history_end();
	n_cases++;
}

/* ---------------- exhaustive enumeration (small arena) ---------------- */
static unsigned long long n_seq;
static unsigned enum_depth;
static unsigned seq[16];
/* op code: 0..K-1 = malloc(64<<code) ; K+j = free(j-th live block in allocation order) ; K+8 = checkpoint ; K+9 = rollback to random kept point */
#define K (B_TOTAL_EXP - B_BLOCK_EXP + 1)

static void run_seq(unsigned len, int emit)
{
	history_begin();
	for(unsigned i = 0; i < len; ++i) {
		unsigned c = seq[i];
		struct op o = {.pat = i * 77 + 1};
		if(c < K) {
			o.k = O_MALLOC;
			o.id = next_id++;
			o.size = (LEAF << c) - (i & 1); /* alternate exact powers and one less */
		} else if(c < K + 8) {
			unsigned j = c - K;
			if(j >= live.n)
				continue;
			/* j-th in address order for determinism */
			unsigned best = 0, cnt = 0;
			for(unsigned a = 0; a < live.n; ++a) {
				cnt = 0;
				for(unsigned b2 = 0; b2 < live.n; ++b2)
					cnt += live.b[b2].p < live.b[a].p;
				if(cnt == j)
					best = a;
			}
			o.k = O_FREE;
			o.id = live.b[best].id;
		} else if(c == K + 8) {
			take_ckpt();
			continue;
		} else {
			rollback(snaps[n_snaps / 2].ref, 0);
			continue;
		}
		exec_op(&o, 0);
		log_op(o);
		verify_against(&live, "enumerated sequence", "C12");
	}
	if(emit)
		printf("SAMPLE {\"enumerated_sequence\":[%u,%u,%u,%u,%u],\"len\":%u,\"arena_bytes\":%u}\n", seq[0], seq[1], seq[2], seq[3], seq[4], len, ARENA);
	rollback(snaps[0].ref, 0);
	history_end();
	n_seq++;
}

static void enumerate(unsigned pos, unsigned live_est)
{
	if(pos == enum_depth) {
		run_seq(pos, n_seq == 12345);
		return;
	}
	for(unsigned c = 0; c < K + 10; ++c) {
		if(c >= K && c < K + 8 && c - K >= live_est)
			continue;
		seq[pos] = c;
		enumerate(pos + 1, c < K ? live_est + 1 : (c < K + 8 ? live_est - 1 : live_est));
	}
}

int main(int argc, char **argv)
{
	if(argc < 3)
		return 2;
	global_config.log_level = LOG_SILENT;
	pthread_t wd;
	pthread_create(&wd, NULL, api_watchdog, NULL);
	if(!strcmp(argv[1], "hist")) {
		unsigned nh = atoi(argv[2]), ops = atoi(argv[3]);
		vrng_t r;
		vrng_seed(&r, strtoull(argv[4], NULL, 0));
		for(unsigned h = 0; h < nh; ++h)
			one_history(ops, &r, h == 0);
		/* calloc overflow (nmemb*size wraps to a small number): an over-size request that must fail */
		history_begin();
		errno = 0;
		void *p = rs_calloc(((size_t)1 << 62) + 16, 4);
		if(p)
			VIOL("C12", "calloc-overflow-served", "rs_calloc(2^62+16, 4) returned %p (a %u-byte block) instead of failing", p, 64);
		p = rs_calloc(((size_t)1 << 32) + 1, ((size_t)1 << 32) + 1);
		if(p)
			VIOL("C12", "calloc-overflow-served", "rs_calloc(2^32+1, 2^32+1) returned %p instead of failing", p);
		ls_free(&live);
		live.n = 0;
		model_allocator_lp_fini(&the_lp.mm_state);
	} else {
		enum_depth = atoi(argv[2]);
		enumerate(0, 1);
		n_cases = n_seq;
		n_nontrivial = n_seq;
	}
	printf("STAT cases %llu\nSTAT operations %llu\nSTAT restores %llu\nSTAT restores_to_non_checkpoint_target %llu\nSTAT coast_forward_ops %llu\nSTAT fossil_collections %llu\n"
	       "STAT restores_right_after_fossil %llu\nSTAT arenas_created_after_a_checkpoint %llu\nSTAT new_arena_reuse_checks %llu\nSTAT reuse_probes_after_free %llu\nSTAT new_arena_while_older_had_room %llu\nSTAT coast_forward_address_divergences %llu\nSTAT calloc_blocks_checked %llu\n"
	       "STAT realloc_moved %llu\nSTAT realloc_in_place %llu\nSTAT bad_size_requests %llu\nSTAT full_verifications %llu\nSTAT checkpoints %llu\nSTAT nontrivial_histories %llu\nSTAT enumerated_sequences %llu\n",
	    n_cases, n_ops, n_restores, n_restore_nonckpt, n_coast_ops, n_fossils, n_fossil_then_restore, n_arena_after_ckpt, n_reuse_checks, n_reuse_probes, n_grow_while_room, n_addr_diverge, n_calloc,
	    n_realloc_move, n_realloc_same, n_null_ok, n_verify, n_ckpts, n_nontrivial, n_seq);
	printf("MAX max_arenas %llu\n", max_arenas);
	printf("OK alloc\n");
	return 0;
}
