/* C19 engine: topology queries, exhaustive over a size box for every geometry + purity of the random choice.
 * usage: topo box <B> <Bn> <seed>      grids w,h in 1..B; rings/star/mesh/graph with 1..Bn regions
 *        topo pure <threads> <queries> <seed>
 */
#include <lp/lp.h>
#include <lib/random/random.h>
#include <ROOT-Sim.h>

#include <pthread.h>
#include <stdio.h>
#include <stdlib.h>
#include "vutil.h"

static unsigned long long n_q, n_viol, n_topo, n_border, n_random_q, n_noneigh, n_degenerate;
static pthread_mutex_t vmx = PTHREAD_MUTEX_INITIALIZER;
static const char *gname[] = {"?", "hexagon", "square", "torus", "ring", "bidring", "star", "mesh", "graph"};

#define VIOL(key, ...) do { n_viol++; vviol("C19", key, __VA_ARGS__); } while(0)

static __thread struct lp_ctx fake;
static __thread struct rng_ctx rctx;

static void lp_setup(uint64_t seed)
{
	fake.rng_ctx = &rctx;
	random_lib_lp_init(seed, &rctx);
	current_lp = &fake;
}

static int is_grid(int g) { return g == TOPOLOGY_HEXAGON || g == TOPOLOGY_SQUARE || g == TOPOLOGY_TORUS; }

/* a small deterministic link set for graphs: region i links to (i*k+1)%n for k=1..deg(i) */
static unsigned graph_links(struct topology *t, unsigned n, unsigned from, vrng_t *r)
{
	unsigned deg = n > 1 ? (unsigned)vrng_below(r, 4) : 0, added = 0;
	unsigned char *seen = calloc(n, 1);
	for(unsigned k = 0; k < deg; ++k) {
		unsigned to = (unsigned)vrng_below(r, n);
		double p = 1.0 / (deg ? deg : 1);
		if(!AddTopologyLink(t, from, to, p))
			VIOL("graph-link-refused", "AddTopologyLink(%u,%u,%g) refused", from, to, p);
		added += !seen[to];
		seen[to] = 1;
	}
	/* updating an existing link must not add a direction */
	if(deg) {
		unsigned to = 0;
		while(!seen[to])
			to++;
		AddTopologyLink(t, from, to, 0.5);
	}
	free(seen);
	return added;
}

static void check_topology(int g, unsigned w, unsigned h, unsigned n, vrng_t *r)
{
	struct topology *t = is_grid(g) ? InitializeTopology(g, h, w) : InitializeTopology(g, n);
	unsigned regions = is_grid(g) ? w * h : n;
	if(!t) {
		VIOL("init-failed", "%s %ux%u/%u", gname[g], w, h, n);
		return;
	}
	n_topo++;
	n_degenerate += (is_grid(g) && (w == 1 || h == 1)) || regions <= 2;
	if(CountRegions(t) != regions)
		VIOL("count-regions", "%s w=%u h=%u n=%u: CountRegions=%llu", gname[g], w, h, n, (unsigned long long)CountRegions(t));
	unsigned *glinks = NULL;
	if(g == TOPOLOGY_GRAPH) {
		glinks = calloc(regions, sizeof(*glinks));
		for(unsigned f = 0; f < regions; ++f)
			glinks[f] = graph_links(t, regions, f, r);
	}
	for(unsigned from = 0; from < regions; ++from) {
		unsigned valid_fixed = 0;
		for(int d = DIRECTION_E; d <= DIRECTION_SE; ++d) {
			if(!is_grid(g) && g != TOPOLOGY_RING && g != TOPOLOGY_BIDRING)
				break; /* star/mesh/graph only answer DIRECTION_RANDOM (they print an error otherwise) */
			lp_id_t rcv = GetReceiver(from, t, d);
			n_q++;
			if(rcv == INVALID_DIRECTION)
				continue;
			valid_fixed++;
			if(rcv >= regions)
				VIOL("receiver-outside", "%s w=%u h=%u n=%u from=%u dir=%d -> %llu", gname[g], w, h, n, from, d,
				    (unsigned long long)rcv);
			else if(!IsNeighbor(from, rcv, t))
				VIOL("receiver-not-neighbor", "%s w=%u h=%u n=%u from=%u dir=%d -> %llu but IsNeighbor says no",
				    gname[g], w, h, n, from, d, (unsigned long long)rcv);
		}
		/* does any neighbour exist according to IsNeighbor? */
		unsigned neigh = 0;
		for(unsigned to = 0; to < regions; ++to)
			neigh += IsNeighbor(from, to, t) && (to != from || g == TOPOLOGY_TORUS || g == TOPOLOGY_RING || g == TOPOLOGY_BIDRING || g == TOPOLOGY_GRAPH);
		/* mesh: IsNeighbor(from,from) is true by construction, but a region is not its own mesh neighbour for GetReceiver */
		lp_id_t cd = CountDirections(from, t);
		lp_id_t expect;
		switch(g) {
			case TOPOLOGY_STAR:
				expect = from == 0 ? regions - 1 : 1;
				break;
			case TOPOLOGY_FCMESH:
				expect = regions - 1;
				break;
			case TOPOLOGY_GRAPH:
				expect = glinks[from];
				break;
			default:
				expect = valid_fixed;
		}
		n_q++;
		if(is_grid(g)) {
			unsigned x = from % w, y = from / w;
			n_border += x == 0 || y == 0 || x == w - 1 || y == h - 1;
		}
		if(cd != expect)
			VIOL(g == TOPOLOGY_HEXAGON ? "countdirections:hexagon" : g == TOPOLOGY_SQUARE ? "countdirections:square" :
			     g == TOPOLOGY_STAR ? "countdirections:star" : "countdirections:other",
			    "%s w=%u h=%u n=%u from=%u: CountDirections=%llu, expected %llu", gname[g], w, h, n, from,
			    (unsigned long long)cd, (unsigned long long)expect);
		/* DIRECTION_RANDOM */
		int has = g == TOPOLOGY_STAR ? (regions > 1) : g == TOPOLOGY_FCMESH ? (regions > 1) : neigh > 0;
		if(!has) {
			n_noneigh++;
#ifndef NDEBUG
			if(is_grid(g))
				continue; /* the debug build asserts here by design: queried in the NDEBUG flavour only */
#endif
		}
		for(int rep = 0; rep < (has ? 6 : 1); ++rep) {
			lp_id_t rcv = GetReceiver(from, t, DIRECTION_RANDOM);
			n_q++;
			n_random_q++;
			if(!has) {
				if(rcv != INVALID_DIRECTION)
					VIOL(g == TOPOLOGY_STAR ? "random-no-neighbour:star" : "random-no-neighbour", "%s w=%u h=%u n=%u from=%u has no neighbour but DIRECTION_RANDOM -> %llu",
					    gname[g], w, h, n, from, (unsigned long long)rcv);
				continue;
			}
			if(rcv == INVALID_DIRECTION)
				VIOL("random-invalid-while-neighbour-exists", "%s w=%u h=%u n=%u from=%u", gname[g], w, h, n, from);
			else if(rcv >= regions)
				VIOL("random-receiver-outside", "%s w=%u h=%u n=%u from=%u -> %llu", gname[g], w, h, n, from,
				    (unsigned long long)rcv);
			else if(!IsNeighbor(from, rcv, t) || (g == TOPOLOGY_FCMESH && rcv == from))
				VIOL("random-receiver-not-neighbor", "%s w=%u h=%u n=%u from=%u -> %llu", gname[g], w, h, n, from,
				    (unsigned long long)rcv);
		}
	}
	free(glinks);
	ReleaseTopology(t);
}

/* ---------------- purity ---------------- */
struct query {
	int topo;
	unsigned from;
	uint64_t st[4];
	lp_id_t ans;
	uint64_t post[4];
};
static struct topology *ptopo[16];
static unsigned pregions[16];
static int pgeom[16];
static unsigned n_ptopo;
static struct query *qs;
static unsigned n_qs;
static unsigned long long n_replayed;

static lp_id_t do_query(const struct query *q, uint64_t post[4])
{
	memcpy(rctx.state, q->st, 32);
	lp_id_t a = GetReceiver(q->from, ptopo[q->topo], DIRECTION_RANDOM);
	memcpy(post, rctx.state, 32);
	return a;
}

struct targ {
	unsigned id;
	uint64_t seed;
	unsigned long long done;
};
static void *replayer(void *arg)
{
	struct targ *ta = arg;
	lp_setup(100 + ta->id);
	vrng_t r;
	vrng_seed(&r, ta->seed);
	for(unsigned k = 0; k < n_qs; ++k) {
		unsigned i = (unsigned)vrng_below(&r, n_qs); /* random order, with repetitions */
		/* unrelated calls in between, by "another LP" */
		if(vrng_below(&r, 3) == 0) {
			uint64_t junk[4];
			struct query o = qs[vrng_below(&r, n_qs)];
			for(int w = 0; w < 4; ++w)
				o.st[w] = vrng_u64(&r);
			(void)do_query(&o, junk);
		}
		uint64_t post[4];
		lp_id_t a = do_query(&qs[i], post);
		ta->done++;
		if(a != qs[i].ans)
			VIOL("random-choice-impure", "%s from=%u: same generator state gave %llu in the baseline and %llu on thread %u after other calls",
			    gname[pgeom[qs[i].topo]], qs[i].from, (unsigned long long)qs[i].ans, (unsigned long long)a, ta->id);
		else if(memcmp(post, qs[i].post, 32))
			VIOL("random-choice-stream-impure", "%s from=%u: same state, same answer, but a different number of draws was consumed",
			    gname[pgeom[qs[i].topo]], qs[i].from);
	}
	return NULL;
}

int main(int argc, char **argv)
{
	if(argc < 5)
		return 2;
	global_config.log_level = LOG_SILENT;
	global_config.prng_seed = 11;
	if(!freopen("/dev/null", "w", stderr)) {} /* the library prints [ERROR] lines for non-random directions on star/mesh/graph */
	vrng_t r;
	lp_setup(1);
	if(!strcmp(argv[1], "box")) {
		unsigned B = atoi(argv[2]), Bn = atoi(argv[3]);
		vrng_seed(&r, strtoull(argv[4], NULL, 0));
		for(int g = TOPOLOGY_HEXAGON; g <= TOPOLOGY_TORUS; ++g)
			for(unsigned w = 1; w <= B; ++w)
				for(unsigned h = 1; h <= B; ++h)
					check_topology(g, w, h, 0, &r);
		for(int g = TOPOLOGY_RING; g <= TOPOLOGY_GRAPH; ++g)
			for(unsigned n = 1; n <= Bn; ++n)
				check_topology(g, 0, 0, n, &r);
		printf("SAMPLE {\"box\":{\"grids\":\"w,h in 1..%u\",\"others\":\"regions 1..%u\"},\"example\":\"hexagon w=3 h=1 from=0 all 9 directions\"}\n", B, Bn);
	} else {
		unsigned T = atoi(argv[2]);
		n_qs = atoi(argv[3]);
		vrng_seed(&r, strtoull(argv[4], NULL, 0));
		static const int geos[] = {TOPOLOGY_HEXAGON, TOPOLOGY_SQUARE, TOPOLOGY_TORUS, TOPOLOGY_BIDRING, TOPOLOGY_STAR, TOPOLOGY_FCMESH, TOPOLOGY_GRAPH, TOPOLOGY_RING, TOPOLOGY_HEXAGON, TOPOLOGY_SQUARE};
		for(unsigned i = 0; i < sizeof(geos) / sizeof(geos[0]); ++i) {
			int g = geos[i];
			unsigned w = 2 + (unsigned)vrng_below(&r, 6), h = 2 + (unsigned)vrng_below(&r, 6), n = 3 + (unsigned)vrng_below(&r, 30);
			ptopo[n_ptopo] = is_grid(g) ? InitializeTopology(g, h, w) : InitializeTopology(g, n);
			pregions[n_ptopo] = is_grid(g) ? w * h : n;
			pgeom[n_ptopo] = g;
			if(g == TOPOLOGY_GRAPH)
				for(unsigned f = 0; f < n; ++f) {
					AddTopologyLink(ptopo[n_ptopo], f, (f + 1) % n, 0.5);
					AddTopologyLink(ptopo[n_ptopo], f, (f + 2) % n, 0.5);
				}
			n_ptopo++;
		}
		qs = calloc(n_qs, sizeof(*qs));
		/* baseline: single thread, each query right after its state is installed */
		for(unsigned i = 0; i < n_qs; ++i) {
			qs[i].topo = (int)vrng_below(&r, n_ptopo);
			qs[i].from = (unsigned)vrng_below(&r, pregions[qs[i].topo]);
			for(int w = 0; w < 4; ++w)
				qs[i].st[w] = vrng_u64(&r);
			qs[i].ans = do_query(&qs[i], qs[i].post);
		}
		/* replays: same thread in another order, then T threads at once */
		struct targ self = {.id = 0, .seed = vrng_u64(&r)};
		replayer(&self);
		lp_setup(1);
		n_replayed += self.done;
		pthread_t th[64];
		struct targ ta[64];
		for(unsigned t = 0; t < T; ++t) {
			ta[t] = (struct targ){.id = t + 1, .seed = vrng_u64(&r)};
			pthread_create(&th[t], NULL, replayer, &ta[t]);
		}
		for(unsigned t = 0; t < T; ++t) {
			pthread_join(th[t], NULL);
			n_replayed += ta[t].done;
		}
		n_q += n_replayed + n_qs;
		printf("SAMPLE {\"purity_query\":{\"geometry\":\"%s\",\"from\":%u,\"state\":[\"%#llx\",\"%#llx\",\"%#llx\",\"%#llx\"],\"answer\":%llu},\"threads\":%u}\n",
		    gname[pgeom[qs[0].topo]], qs[0].from, (unsigned long long)qs[0].st[0], (unsigned long long)qs[0].st[1],
		    (unsigned long long)qs[0].st[2], (unsigned long long)qs[0].st[3], (unsigned long long)qs[0].ans, T);
	}
	printf("STAT cases %llu\nSTAT queries %llu\nSTAT topologies %llu\nSTAT degenerate_topologies %llu\nSTAT border_cells %llu\nSTAT random_queries %llu\n"
	       "STAT regions_without_neighbour %llu\nSTAT purity_replays %llu\nSTAT violations %llu\n",
	    n_q, n_q, n_topo, n_degenerate, n_border, n_random_q, n_noneigh, n_replayed, n_viol);
	printf("OK topo\n");
	return 0;
}
