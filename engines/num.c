/* C18 engine: numerical library contracts for crafted and random generator states.
 * The calling LP's generator is set to a state whose next 1..3 raw outputs are chosen values
 * (xoshiro256**: output = rotl(s1*5,7)*9 is invertible; the next s1 values are XOR-linear in the state).
 * usage: num crafted <seed> | num random <count> <seed>
 */
#include <lp/lp.h>
#include <lib/random/random.h>
#include <lib/random/xoroshiro.h>

#include <math.h>
#include <signal.h>
#include <stdio.h>
#include <stdlib.h>
#include <unistd.h>
#include "vutil.h"

static struct lp_ctx fake[3];
static struct rng_ctx ctx[3];
static char cur_case[256];
static unsigned long long n_calls, n_viol, n_crafted, n_boundary;
static unsigned long long per_fn[16];

static void on_abort(int sig)
{
	(void)sig;
	static const char pre[] = "\nABORTED-IN-CASE ";
	if(write(1, pre, sizeof(pre) - 1) < 0) {}
	if(write(1, cur_case, strlen(cur_case)) < 0) {}
	if(write(1, "\n", 1) < 0) {}
	_exit(134);
}

#define VIOL(key, fmt, ...) do { n_viol++; vviol("C18", key, "case %s :: " fmt, cur_case, ##__VA_ARGS__); } while(0)

static inline uint64_t rotr64(uint64_t x, unsigned k) { return (x >> k) | (x << (64 - k)); }
#define INV5 0xCCCCCCCCCCCCCCCDULL
#define INV9 0x8E38E38E38E38E39ULL
static uint64_t s1_for_output(uint64_t v) { return INV5 * rotr64(INV9 * v, 7); }

/* state whose next three raw outputs are v1,v2,v3 (s0 free) */
static void craft(uint64_t st[4], uint64_t v1, uint64_t v2, uint64_t v3, uint64_t free0)
{
	uint64_t s1 = s1_for_output(v1), s1p = s1_for_output(v2), s1pp = s1_for_output(v3);
	uint64_t s0 = free0;
	uint64_t s2 = s1p ^ s0 ^ s1;
	uint64_t s3 = s1pp ^ s1p ^ s2 ^ (s1 << 17) ^ s1;
	st[0] = s0; st[1] = s1; st[2] = s2; st[3] = s3;
	/* verify by stepping the REAL recurrence on a copy */
	uint64_t c[4] = {s0, s1, s2, s3};
	uint64_t o1 = random_u64(c), o2 = random_u64(c), o3 = random_u64(c);
	if(o1 != v1 || o2 != v2 || o3 != v3) {
		printf("HARNESS-ERROR crafted state does not produce the chosen outputs\n");
		exit(2);
	}
}

static int me = 1; /* the calling LP, rotated so that every LP is caller and bystander in turn */
static void set_state(const uint64_t st[4])
{
	memcpy(ctx[me].state, st, sizeof(ctx[me].state));
}

enum fn { F_RANDOM, F_RANGE, F_RANGE_NU, F_EXPENT, F_POISSON, F_GAMMA_S, F_GAMMA_L, F_ZIPF, F_NORMAL, F_U64, F_COUNT };
static const char *fn_name[] = {"Random", "RandomRange", "RandomRangeNonUniform", "Expent", "Poisson", "Gamma<6", "Gamma>=6", "Zipf", "Normal", "RandomU64"};

static void check_isolation(const uint64_t before1[4], const uint64_t o0[4], const uint64_t o2[4])
{
	if(memcmp(ctx[(me + 1) % 3].state, o0, 32) || memcmp(ctx[(me + 2) % 3].state, o2, 32))
		VIOL("other-lp-generator-changed", "a call by LP %d changed the generator of another LP", me);
	if(!memcmp(ctx[me].state, before1, 32))
		VIOL("caller-generator-not-advanced", "the call by LP %d did not advance the caller's generator", me);
}

static void one_call(enum fn f, const uint64_t st[4], vrng_t *r, const char *how)
{
	uint64_t o0[4], o2[4];
	me = (int)(n_calls % 3);
	memcpy(o0, ctx[(me + 1) % 3].state, 32);
	memcpy(o2, ctx[(me + 2) % 3].state, 32);
	set_state(st);
	current_lp = &fake[me];
	n_calls++;
	per_fn[f]++;
	int mn, mx, x;
	switch(f) {
		case F_RANDOM: {
			snprintf(cur_case, sizeof(cur_case), "Random() %s state=[%#llx,%#llx,%#llx,%#llx]", how,
			    (unsigned long long)st[0], (unsigned long long)st[1], (unsigned long long)st[2], (unsigned long long)st[3]);
			double v = Random();
			if(!(v >= 0.0 && v < 1.0))
				VIOL("Random-out-of-range", "returned %a", v);
			break;
		}
		case F_U64:
			snprintf(cur_case, sizeof(cur_case), "RandomU64() %s", how);
			(void)RandomU64();
			break;
		case F_RANGE: {
			static const int edges[][2] = {{0, 0}, {0, 1}, {-1, 0}, {5, 5}, {0, 9}, {-7, 7}, {0, INT_MAX - 1}, {1, INT_MAX - 1},
			    {INT_MIN + 1, -1}, {-1000000000, 1000000000}, {INT_MIN / 2, INT_MAX / 2 - 1}, {3, 1000}, {0, 1 << 24}, {0, (1 << 30) - 1}};
			unsigned k = vrng_below(r, sizeof(edges) / sizeof(edges[0]) + 2);
			if(k < sizeof(edges) / sizeof(edges[0])) {
				mn = edges[k][0];
				mx = edges[k][1];
			} else {
				mn = (int)(vrng_below(r, 2000001)) - 1000000;
				mx = mn + (int)vrng_below(r, 1000000);
			}
			snprintf(cur_case, sizeof(cur_case), "RandomRange(%d,%d) %s state=[%#llx,%#llx,%#llx,%#llx]", mn, mx, how,
			    (unsigned long long)st[0], (unsigned long long)st[1], (unsigned long long)st[2], (unsigned long long)st[3]);
			int v = RandomRange(mn, mx);
			if(v < mn || v > mx)
				VIOL("RandomRange-out-of-range", "returned %d", v);
			break;
		}
		case F_RANGE_NU: {
			/* documented domain (the one the shipped test uses): 0 <= min <= max < INT_MAX, x >= 0 */
			mn = (int)vrng_below(r, 4) == 0 ? 0 : (int)vrng_below(r, 1000);
			mx = mn + (int)vrng_below(r, vrng_below(r, 3) ? 1000 : 1000000);
			x = (int)vrng_below(r, vrng_below(r, 2) ? 64 : 100000);
			snprintf(cur_case, sizeof(cur_case), "RandomRangeNonUniform(%d,%d,%d) %s", x, mn, mx, how);
			int v = RandomRangeNonUniform(x, mn, mx);
			if(v < mn || v > mx)
				VIOL("RandomRangeNonUniform-out-of-range", "returned %d", v);
			break;
		}
		case F_EXPENT: {
			double mean = (double[]){1.0, 0.5, 1000.0, 1e-9, 1e9}[vrng_below(r, 5)];
			snprintf(cur_case, sizeof(cur_case), "Expent(%g) %s state=[%#llx,%#llx,..]", mean, how, (unsigned long long)st[0], (unsigned long long)st[1]);
			double v = Expent(mean);
			if(!isfinite(v) || v < 0.0)
				VIOL("Expent-not-finite-nonneg", "returned %a", v);
			break;
		}
		case F_POISSON: {
			snprintf(cur_case, sizeof(cur_case), "Poisson() %s state=[%#llx,%#llx,..]", how, (unsigned long long)st[0], (unsigned long long)st[1]);
			double v = Poisson();
			if(!isfinite(v) || v < 0.0)
				VIOL("Poisson-not-finite-nonneg", "returned %a", v);
			break;
		}
		case F_GAMMA_S:
		case F_GAMMA_L: {
			unsigned ia = f == F_GAMMA_S ? 1 + (unsigned)vrng_below(r, 5) : (unsigned[]){6, 7, 10, 50, 1000}[vrng_below(r, 5)];
			snprintf(cur_case, sizeof(cur_case), "Gamma(%u) %s state=[%#llx,%#llx,%#llx,%#llx]", ia, how,
			    (unsigned long long)st[0], (unsigned long long)st[1], (unsigned long long)st[2], (unsigned long long)st[3]);
			double v = Gamma(ia);
			if(!isfinite(v) || v < 0.0)
				VIOL(f == F_GAMMA_S ? "Gamma-small-not-finite-nonneg" : "Gamma-large-not-finite-nonneg", "returned %a", v);
			break;
		}
		case F_ZIPF: {
			double skew = (double[]){1.0001, 1.5, 2.0, 3.0, 10.0}[vrng_below(r, 5)];
			unsigned limit = (unsigned[]){1, 2, 10, 1000, 1000000}[vrng_below(r, 5)];
			snprintf(cur_case, sizeof(cur_case), "Zipf(%g,%u) %s state=[%#llx,%#llx,%#llx,%#llx]", skew, limit, how,
			    (unsigned long long)st[0], (unsigned long long)st[1], (unsigned long long)st[2], (unsigned long long)st[3]);
			unsigned v = Zipf(skew, limit);
			if(v < 1 || v > limit)
				VIOL("Zipf-out-of-range", "returned %u", v);
			break;
		}
		case F_NORMAL: {
			snprintf(cur_case, sizeof(cur_case), "Normal() %s state=[%#llx,%#llx,..]", how, (unsigned long long)st[0], (unsigned long long)st[1]);
			double v = Normal();
			if(!isfinite(v))
				VIOL("Normal-not-finite", "returned %a", v);
			break;
		}
		default:
			break;
	}
	check_isolation(st, o0, o2);
}

static uint64_t *bset;
static unsigned n_bset;
static void build_boundaries(void)
{
	bset = malloc(sizeof(*bset) * 1024);
	bset[n_bset++] = 0;
	bset[n_bset++] = 1;
	bset[n_bset++] = 2;
	bset[n_bset++] = 3;
	for(unsigned k = 1; k < 64; ++k) {
		uint64_t p = 1ULL << k;
		bset[n_bset++] = p - 1;
		bset[n_bset++] = p;
		bset[n_bset++] = p + 1;
		/* the mantissa cut of the double conversion: lowest kept / highest dropped bit */
		if(k >= 12) {
			bset[n_bset++] = p | (p >> 11);
			bset[n_bset++] = p | ((p >> 11) - 1);
			bset[n_bset++] = (p << 1) - (p >> 11 ? p >> 11 : 1);
		}
	}
	bset[n_bset++] = UINT64_MAX;
	bset[n_bset++] = UINT64_MAX - 1;
	bset[n_bset++] = UINT64_MAX - 0x7ff;
	bset[n_bset++] = UINT64_MAX - 0x800;
}

int main(int argc, char **argv)
{
	if(argc < 3)
		return 2;
	signal(SIGABRT, on_abort);
	global_config.log_level = LOG_SILENT;
	global_config.prng_seed = 7;
	for(int i = 0; i < 3; ++i) {
		fake[i].rng_ctx = &ctx[i];
		random_lib_lp_init(i, &ctx[i]);
	}
	vrng_t r;
	uint64_t st[4];
	char how[96];
	if(!strcmp(argv[1], "crafted")) {
		vrng_seed(&r, strtoull(argv[2], NULL, 0));
		build_boundaries();
		/* every boundary value as the next raw output, for every function */
		for(unsigned b = 0; b < n_bset; ++b)
			for(int f = 0; f < F_COUNT; ++f)
				for(int rep = 0; rep < 3; ++rep) {
					craft(st, bset[b], vrng_u64(&r), vrng_u64(&r), vrng_u64(&r));
					snprintf(how, sizeof(how), "crafted(next=%#llx)", (unsigned long long)bset[b]);
					n_crafted++;
					n_boundary++;
					one_call(f, st, &r, how);
				}
		/* all triples of a small set as the next three raw outputs (multi-draw functions; also the single-draw ones) */
		const uint64_t S[] = {0, 1, 2, 1ULL << 63, (1ULL << 63) - 1, (1ULL << 63) + 1, UINT64_MAX, UINT64_MAX - 1, 1ULL << 32, 0x8000000000000400ULL, 0x7ffffffffffffc00ULL, 1ULL << 11, 1ULL << 12};
		const unsigned ns = sizeof(S) / sizeof(S[0]);
		for(unsigned a = 0; a < ns; ++a)
			for(unsigned b = 0; b < ns; ++b)
				for(unsigned c = 0; c < ns; ++c)
					for(int f = 0; f < F_COUNT; ++f) {
						craft(st, S[a], S[b], S[c], vrng_u64(&r));
						snprintf(how, sizeof(how), "crafted(next3=%#llx,%#llx,%#llx)", (unsigned long long)S[a],
						    (unsigned long long)S[b], (unsigned long long)S[c]);
						n_crafted++;
						one_call(f, st, &r, how);
					}
		/* second and third draw at a boundary, first random */
		for(unsigned b = 0; b < n_bset; ++b)
			for(int f = 0; f < F_COUNT; ++f) {
				craft(st, vrng_u64(&r), bset[b], vrng_u64(&r), vrng_u64(&r));
				snprintf(how, sizeof(how), "crafted(2nd=%#llx)", (unsigned long long)bset[b]);
				n_crafted++;
				one_call(f, st, &r, how);
				craft(st, vrng_u64(&r), vrng_u64(&r), bset[b], vrng_u64(&r));
				snprintf(how, sizeof(how), "crafted(3rd=%#llx)", (unsigned long long)bset[b]);
				n_crafted++;
				one_call(f, st, &r, how);
			}
		/* degenerate states: a single set bit (the all-zero state is a fixed point no seeding can reach: not explored) */
		for(unsigned w = 0; w < 4; ++w)
			for(unsigned bit = 0; bit < 64; bit += 7) {
				memset(st, 0, sizeof(st));
				st[w] = 1ULL << bit;
				for(int f = 0; f < F_COUNT; ++f) {
					snprintf(how, sizeof(how), "single-bit(w%u,b%u)", w, bit);
					n_crafted++;
					one_call(f, st, &r, how);
				}
			}
		printf("SAMPLE {\"function\":\"Random\",\"crafted_next_raw_output\":\"0x1\",\"state\":\"s1=%#llx\"}\n", (unsigned long long)s1_for_output(1));
		printf("SAMPLE {\"function\":\"Gamma(6)\",\"crafted_next3\":[\"0x0\",\"0x8000000000000000\",\"0xffffffffffffffff\"]}\n");
	} else {
		unsigned long long cnt = strtoull(argv[2], NULL, 0);
		vrng_seed(&r, strtoull(argv[3], NULL, 0));
		for(unsigned long long i = 0; i < cnt; ++i) {
			for(int w = 0; w < 4; ++w)
				st[w] = vrng_u64(&r);
			snprintf(how, sizeof(how), "random-state");
			one_call((enum fn)(i % F_COUNT), st, &r, how);
		}
		printf("SAMPLE {\"random_states\":%llu,\"last_case\":\"%s\"}\n", cnt, cur_case);
	}
	printf("STAT cases %llu\nSTAT calls %llu\nSTAT crafted_states %llu\nSTAT boundary_first_output_cases %llu\nSTAT violations %llu\n", n_calls, n_calls,
	    n_crafted, n_boundary, n_viol);
	for(int f = 0; f < F_COUNT; ++f)
		printf("STAT calls_%s %llu\n", f == F_GAMMA_S ? "Gamma_small" : f == F_GAMMA_L ? "Gamma_large" : fn_name[f], per_fn[f]);
	printf("OK num\n");
	return 0;
}
