#!/bin/sh
# Builds nothing that depends on /repo (every check rebuilds from /repo's working tree).
# Only verifies the toolchain the checks need is present.
set -e
cd "$(dirname "$0")"
mkdir -p build evidence replays
for t in gcc mpicc mpiexec python3; do command -v $t >/dev/null || { echo "missing $t"; exit 1; }; done
python3 -c 'import json,sys; json.load(open("MANIFEST.json")); print("manifest ok")'
