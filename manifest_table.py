HOOK_COMMITS = ["4172cbf", "74fb8b3", "113d79e", "16481f2", "a8453e3", "1565b2c"]

ENGINES = [
    {"name": "topo", "path": "engines/topo.c", "serves_properties": ["C19", "C11"],
     "kind_free_text": "cross-checks GetReceiver/IsNeighbor/CountDirections over a size box for the eight geometries; purity replay of (generator state, query) lists in other orders and on 2..12 threads; ASan+UBSan, debug and NDEBUG"},
    {"name": "num", "path": "engines/num.c", "serves_properties": ["C18", "C11"],
     "kind_free_text": "calls the real numerical library with the calling LP's xoshiro256** state crafted (closed-form inversion, verified by stepping the real recurrence) so the next 1..3 raw outputs are boundary values; range/finiteness/isolation assertions + UBSan/ASan"},
    {"name": "part", "path": "engines/part.c", "serves_properties": ["C14"],
     "kind_free_text": "harness TU that #includes the real lp/lp.c with stubbed callees; runs lp_global_init/lp_init/lp_fini for every rank and thread of a triple"},
    {"name": "order", "path": "engines/order.c", "serves_properties": ["C16"],
     "kind_free_text": "axiom checker over all triples of an event pool, real comparator from lp/msg.h, ASan+UBSan, debug and NDEBUG layouts"},
]

CHECKS = {
    "C19": {
        "engine": "topo",
        "technique": "runtime cross-check oracle over an exhaustive size box + metamorphic purity replay (orders, threads) under ASan/UBSan",
        "text": "For every geometry, every size in the box (quick: grids up to 8x8, 1..40 regions; thorough: 24x24, 1..200), every source and every direction: receiver is INVALID or inside and IsNeighbor-confirmed, DIRECTION_RANDOM valid whenever a neighbour exists (INVALID otherwise, NDEBUG build), CountDirections equals the stated count. Purity: 20k-60k (state, query) pairs replayed in random order with unrelated calls in between on 1 and 2..12 threads must reproduce the baseline answer and stream consumption. Found and now guards F6, F7, F8 (fixed).",
        "design_ref": "DESIGN.md section 4, C19",
        "note": "Geometric correctness of adjacency (e.g. symmetry) is not part of the property and not checked; sizes beyond the box are not explored; thread interleavings are whatever the OS produced (TSan not used here).",
    },
    "C18": {
        "engine": "num",
        "technique": "runtime assertions + UBSan on the real library with crafted generator states (boundary raw outputs) and random states",
        "text": "Every library function is called with the caller's generator state solved so that its 1st/2nd/3rd raw output is 0, 1, 2^k-1, 2^k, 2^k+1 (all k), mantissa-cut neighbours, 2^64-1 and neighbours, all triples of a 13-value set, single-bit states, plus 1.4M (quick) / 19M (thorough) random states; asserts range, finiteness, non-negativity, that only the caller's generator moves, and that UBSan/ASan stay silent. It found and now guards F1 (shift by 64) and F2 (Gamma inf).",
        "design_ref": "DESIGN.md section 4, C18",
        "note": "Not all 2^64 outputs: boundary classes + random sampling. Argument domains as documented in the evidence assumptions. Distribution quality is not checked (not part of the property).",
    },
    "C14": {
        "engine": "part",
        "technique": "runtime oracle on the real partitioning code: ownership/routing invariants asserted for every (LPs, ranks, threads) triple of a box, under ASan/UBSan",
        "text": "Runs the real lp_global_init(), lp_init(), lp_fini() and the lid_to_nid/lid_to_rid macros for every rank and every thread of every triple in a box (quick: LPs<=300, ranks<=8, threads<=16; thorough: LPs<=2000, ranks<=12, threads<=24) and checks exactly-one owner, contiguity, coverage, no idle thread, routing == owner; plus random triples with 2^20..2^41 LPs at partition boundaries. Exhaustive over the box only.",
        "design_ref": "DESIGN.md section 4, C14",
        "note": "process_lp_init/fini, allocator and RNG init are stubs (they do not influence partitioning); triples outside the box and rank counts above LPs are not explored; the in-run agreement (LP executed only by its owner thread) is additionally asserted by the sim engine's monitors.",
    },
    "C16": {
        "engine": "order",
        "technique": "runtime oracle: strict-weak-order axioms + content-only twins on the real comparator, exhaustive over a generated event pool, under ASan/UBSan",
        "text": "Executes the real msg_is_before on every ordered triple of a pool of 300-420 de-duplicated events built to hit every tie-break level (timestamp, ANTI, type, size, payload byte first/last/beyond 32) and on twins that differ only in fields the order must ignore. Exploration of inputs: exhaustive over the pool, not over all events.",
        "design_ref": "DESIGN.md section 4, C16",
        "note": "Trusts gcc/UBSan and that the pool's value classes cover the comparator's branches; payloads longer than 64 bytes are not in the pool.",
    },
}

NOT_APPLICABLE = {}
