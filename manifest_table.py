HOOK_COMMITS = ["4172cbf", "74fb8b3", "113d79e", "16481f2", "a8453e3", "1565b2c"]

ENGINES = [
    {"name": "serial", "path": "engines/serial.c + model/vmodel.c", "serves_properties": ["C10", "C11"],
     "kind_free_text": "generated-model family run through the core's serial runtime and through an independent reference executor (own event list, plain malloc, own copy of the RNG streams); API-boundary observer compares per-LP dispatch sequences, per-event state digests and the stop point; ASan+UBSan, debug and NDEBUG"},
    {"name": "alloc", "path": "engines/alloc.c", "serves_properties": ["C05", "C12", "C13", "C11"],
     "kind_free_text": "drives the real rs_* API and model_allocator_checkpoint_take/_restore/_fossil_lp_collect against a shadow model (live set, copies of every block per checkpoint, operation log re-executed as coasting forward); 64 KiB and 2 KiB arena builds; exhaustive enumeration of short sequences on the small arena; ASan+UBSan"},
    {"name": "queue", "path": "engines/queue.c", "serves_properties": ["C15", "C11"],
     "kind_free_text": "multi-thread histories on the real msg_queue.c recorded at the harness boundary (logical clock, unique ids) + offline exactly-once/minimality/peek checker; failpoints between head load and CAS; ASan, plain and ThreadSanitizer builds"},
    {"name": "topo", "path": "engines/topo.c", "serves_properties": ["C19", "C11"],
     "kind_free_text": "cross-checks GetReceiver/IsNeighbor/CountDirections over a size box for the eight geometries; purity replay of (generator state, query) lists in other orders and on 2..12 threads; ASan+UBSan, debug and NDEBUG"},
    {"name": "num", "path": "engines/num.c", "serves_properties": ["C18", "C11"],
     "kind_free_text": "calls the real numerical library with the calling LP's xoshiro256** state crafted (closed-form inversion, verified by stepping the real recurrence) so the next 1..3 raw outputs are boundary values; range/finiteness/isolation assertions + UBSan/ASan"},
    {"name": "part", "path": "engines/part.c", "serves_properties": ["C14"],
     "kind_free_text": "harness TU that #includes the real lp/lp.c with stubbed callees; runs lp_global_init/lp_init/lp_fini for every rank and thread of a triple"},
    {"name": "order", "path": "engines/order.c", "serves_properties": ["C16"],
     "kind_free_text": "axiom checker over all triples of an event pool, real comparator from lp/msg.h, ASan+UBSan, debug and NDEBUG layouts"},
]

CHECKS = {
    "C10": {
        "engine": "serial",
        "technique": "reference-model monitor at the API boundary over hundreds of generated models, real serial runtime under ASan+UBSan",
        "text": "320 (quick) / 5000 (thorough) generated models - timestamp ties, bounded zero-delay chains, events scheduled at init (also at timestamp 0), payloads 0..300 bytes, dynamic memory, library RNG - are executed by the serial runtime; an observer records every dispatcher call; per LP the delivered events (timestamp, type, size, payload hash) and the state digest after each event must equal the reference executor's, LP_INIT/LP_FINI exactly once and first/last, and the run must stop exactly where the stop rule (all predicates, or first event at/after the termination time with GVT period 0) says.",
        "design_ref": "DESIGN.md section 4, C10",
        "note": "The reference resolves ties with the runtime's own comparator (the property does not fix a tie-break; C16 checks the comparator). Stop point tolerance zone: events with the same (timestamp,type,size) as the stop event. Positive GVT periods with a termination time (wall-clock sampled) are not asserted exactly.",
    },
    "C05": {
        "engine": "alloc (+ sim oracle A when registered)",
        "technique": "runtime shadow-model oracle on the real allocator/checkpoint code under ASan+UBSan (restore + re-execution vs recorded state)",
        "text": "Seeded histories of allocator operations with checkpoints at arbitrary positions and rollbacks to targets at, between and before checkpoints (down to the oldest kept point), repeated rollbacks, tens of arenas created after the restored checkpoint. After each restore the allocation map read from the real trees and every live byte must equal the snapshot; after re-executing the logged operations the state must equal the one recorded at the target. Exact-size checkpoint buffers make sizing errors ASan reports.",
        "design_ref": "DESIGN.md section 4, C05",
        "note": "Addresses of re-executed allocations are excluded from the comparison (see assumptions in the evidence). Interplay with the event loop (silent execution, anti-messages) is covered by the sim engine, not by this engine.",
    },
    "C12": {
        "engine": "alloc",
        "technique": "runtime shadow-model oracle on the real allocator under ASan+UBSan; exhaustive enumeration of short operation sequences on a 2 KiB-arena build",
        "text": "After every operation of seeded histories (sizes 0, 1..64, around every power of two, 64 KiB, > 64 KiB; malloc/calloc/realloc/free/write; growth to tens of arenas; interleaved checkpoints/restores) the shadow checks: non-NULL for 1..65536, NULL otherwise, inside an arena, aligned, long enough (actual reserved size read from the tree), disjoint, other blocks' bytes unchanged, allocation map == union of live blocks, freed space reused before a new arena is created, realloc prefix preserved, calloc zeroed on dirtied memory, calloc overflow refused. All malloc/free/checkpoint/rollback sequences up to depth 5 (quick) / 6 (thorough) on a 32-leaf arena.",
        "design_ref": "DESIGN.md section 4, C12",
        "note": "Host malloc failure is not injected. The exhaustive part covers the small-arena build only (same code, B_TOTAL_EXP=11).",
    },
    "C13": {
        "engine": "alloc (+ sim when registered)",
        "technique": "runtime shadow-model oracle: fossil collections at arbitrary targets followed by rollbacks to every kind of kept position, under ASan+UBSan",
        "text": "model_allocator_fossil_lp_collect is called at arbitrary targets between the oldest kept checkpoint and the current position; the returned amount must be the newest checkpoint <= target, kept checkpoints must be re-based consistently, and subsequent rollbacks (including immediately after a collection and to the oldest kept point) must reproduce the shadow state; freed checkpoints that are still needed become ASan reports.",
        "design_ref": "DESIGN.md section 4, C13",
        "note": "The runtime side (fossil_lp_collect choosing the cut from GVT, history truncation) is exercised by the sim engine.",
    },
    "C15": {
        "engine": "queue",
        "technique": "offline history checker (exactly-once, minimality w.r.t. real-time order, peek lower bound) over recorded multi-thread executions of the real queue + ThreadSanitizer on the same harness",
        "text": "2..16 threads insert into 1..5 consumers' queues while consumers extract and peek; every operation is stamped before the call and after the return with one logical clock, every message carries a unique id. The checker decides: each insert extracted exactly once by its destination; an extraction never returns a message while another one, whose insert returned before the extract call, orders strictly first (full order incl. tie-break, using the real comparator); peek never above such a message's timestamp; nothing left after draining. The TSan build reports a missing release/acquire on the payload hand-over.",
        "design_ref": "DESIGN.md section 4, C15",
        "note": "Interleavings are produced by the OS plus yield/spin failpoints between the head load and the CAS; not enumerated. TSan flavour: no order oracle (relaxed clock).",
    },
    "C19": {
        "engine": "topo",
        "technique": "runtime cross-check oracle over an exhaustive size box + metamorphic purity replay (orders, threads) under ASan/UBSan",
        "text": "For every geometry, every size in the box (quick: grids up to 8x8, 1..40 regions; thorough: 24x24, 1..200), every source and every direction: receiver is INVALID or inside and IsNeighbor-confirmed, DIRECTION_RANDOM valid whenever a neighbour exists (INVALID otherwise, NDEBUG build), CountDirections equals the stated count. Purity: 20k-60k (state, query) pairs replayed in random order with unrelated calls in between on 1 and 2..12 threads must reproduce the baseline answer and stream consumption. Found and now guards F6, F7, F8 (fixed).",
        "design_ref": "DESIGN.md section 4, C19",
        "note": "Geometric correctness of adjacency (e.g. symmetry) is not part of the property and not checked; sizes beyond the box are not explored; thread interleavings are whatever the OS produced (TSan not used here).",
    },
    "C18": {
        "engine": "num",
        "technique": "runtime assertions + UBSan on the real library with crafted generator states (boundary raw outputs) and random states",
        "text": "Every library function is called with the caller's generator state solved so that its 1st/2nd/3rd raw output is 0, 1, 2^k-1, 2^k, 2^k+1 (all k), mantissa-cut neighbours, 2^64-1 and neighbours, all triples of a 13-value set, single-bit states, plus 1.4M (quick) / 19M (thorough) random states; asserts range, finiteness, non-negativity, that only the caller's generator moves, and that UBSan/ASan stay silent. It found and now guards F1 (shift by 64) and F2 (Gamma inf).",
        "design_ref": "DESIGN.md section 4, C18",
        "note": "Not all 2^64 outputs: boundary classes + random sampling. Argument domains as documented in the evidence assumptions. Distribution quality is not checked (not part of the property).",
    },
    "C14": {
        "engine": "part",
        "technique": "runtime oracle on the real partitioning code: ownership/routing invariants asserted for every (LPs, ranks, threads) triple of a box, under ASan/UBSan",
        "text": "Runs the real lp_global_init(), lp_init(), lp_fini() and the lid_to_nid/lid_to_rid macros for every rank and every thread of every triple in a box (quick: LPs<=300, ranks<=8, threads<=16; thorough: LPs<=2000, ranks<=12, threads<=24) and checks exactly-one owner, contiguity, coverage, no idle thread, routing == owner; plus random triples with 2^20..2^41 LPs at partition boundaries. Exhaustive over the box only.",
        "design_ref": "DESIGN.md section 4, C14",
        "note": "process_lp_init/fini, allocator and RNG init are stubs (they do not influence partitioning); triples outside the box and rank counts above LPs are not explored; the in-run agreement (LP executed only by its owner thread) is additionally asserted by the sim engine's monitors.",
    },
    "C16": {
        "engine": "order",
        "technique": "runtime oracle: strict-weak-order axioms + content-only twins on the real comparator, exhaustive over a generated event pool, under ASan/UBSan",
        "text": "Executes the real msg_is_before on every ordered triple of a pool of 300-420 de-duplicated events built to hit every tie-break level (timestamp, ANTI, type, size, payload byte first/last/beyond 32) and on twins that differ only in fields the order must ignore. Exploration of inputs: exhaustive over the pool, not over all events.",
        "design_ref": "DESIGN.md section 4, C16",
        "note": "Trusts gcc/UBSan and that the pool's value classes cover the comparator's branches; payloads longer than 64 bytes are not in the pool.",
    },
}

NOT_APPLICABLE = {}
