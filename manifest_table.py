HOOK_COMMITS = ["4172cbf", "74fb8b3", "113d79e", "16481f2", "a8453e3", "1565b2c"]

ENGINES = [
    {"name": "order", "path": "engines/order.c", "serves_properties": ["C16"],
     "kind_free_text": "axiom checker over all triples of an event pool, real comparator from lp/msg.h, ASan+UBSan, debug and NDEBUG layouts"},
]

CHECKS = {
    "C16": {
        "engine": "order",
        "technique": "runtime oracle: strict-weak-order axioms + content-only twins on the real comparator, exhaustive over a generated event pool, under ASan/UBSan",
        "text": "Executes the real msg_is_before on every ordered triple of a pool of 300-420 de-duplicated events built to hit every tie-break level (timestamp, ANTI, type, size, payload byte first/last/beyond 32) and on twins that differ only in fields the order must ignore. Exploration of inputs: exhaustive over the pool, not over all events.",
        "design_ref": "DESIGN.md section 4, C16",
        "note": "Trusts gcc/UBSan and that the pool's value classes cover the comparator's branches; payloads longer than 64 bytes are not in the pool.",
    },
}

NOT_APPLICABLE = {}
